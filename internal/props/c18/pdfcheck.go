package c18

import (
	"bytes"
	"crypto/sha1"
	"fmt"
	"math"
	"sort"
	"strings"

	"verif/internal/fontread"
	"verif/internal/fw"
	"verif/internal/pdfread"
)

const ptPerMm = 72 / 25.4

type finding struct{ class, detail string }

type findings struct {
	list []finding
	seen map[string]bool
}

// add keeps the first finding of each class per document.
func (f *findings) add(class, format string, a ...interface{}) {
	if f.seen == nil {
		f.seen = map[string]bool{}
	}
	if f.seen[class] {
		return
	}
	f.seen[class] = true
	f.list = append(f.list, finding{class, fmt.Sprintf(format, a...)})
}

// pdfFont is a Type0 font of the document with its embedded program opened.
type pdfFont struct {
	name     pdfread.Name
	ref      string
	t0       *pdfread.Type0Font
	prog     *fontread.Font
	progErr  string
	progSum  [20]byte
	cidKeyed bool
	tu       *pdfread.ToUnicodeMap
	probs    []pdfread.Problem
	bfrange  bool // the ToUnicode CMap has a bfrange section
	wRange   bool // the W array has a "first last width" group
}

func (f *pdfFont) CodeBytes() int   { return 2 } // Identity-H and Identity-V: two-byte codes, CID = code
func (f *pdfFont) WritingMode() int { return f.t0.WMode }
func (f *pdfFont) Displacement(code int) float64 {
	if f.t0.WMode == 1 {
		w1, _, _ := f.t0.Vertical(code)
		return w1
	}
	return f.t0.Width(code)
}

// embedded full programs are identical in thousands of documents: cache the opened program
var progCache = map[[20]byte]*fontread.Font{}

func openProgram(b []byte) (*fontread.Font, [20]byte, error) {
	sum := sha1.Sum(b)
	if len(b) > 20000 {
		if p, ok := progCache[sum]; ok {
			return p, sum, nil
		}
	}
	p, err := fontread.Open(b)
	if err == nil && len(b) > 20000 {
		progCache[sum] = p
	}
	return p, sum, err
}

func readFont(d *pdfread.Doc, name pdfread.Name, v pdfread.Object) *pdfFont {
	pf := &pdfFont{name: name, ref: pdfread.Fmt(v)}
	fd, ok := d.Dict(v)
	if !ok {
		pf.probs = append(pf.probs, pdfread.Problem{Class: "font-dict", Detail: "font resource is not a dictionary"})
		pf.t0 = &pdfread.Type0Font{}
		return pf
	}
	pf.t0, pf.probs = d.ReadType0Font(fd)
	if pf.t0.FontFile != nil {
		b, err := pf.t0.FontFile.Decode()
		if err != nil {
			pf.progErr = "font program stream: " + err.Error()
		} else if prog, sum, err := openProgram(b); err != nil {
			pf.progErr = err.Error()
		} else {
			pf.prog, pf.progSum = prog, sum
			if prog.IsCFF {
				info, err := fontread.ReadCFFInfo(prog.Dir.Tables["CFF "])
				if err != nil {
					pf.progErr = err.Error()
					pf.prog = nil
				} else {
					pf.cidKeyed = info.CIDKeyed
				}
			}
		}
	} else {
		pf.progErr = "no embedded font program"
	}
	if arr, ok := d.Resolve(pf.t0.CIDFont["W"]).(pdfread.Array); ok {
		for i := 0; i+1 < len(arr); i++ {
			_, a := arr[i].(int64)
			_, b := arr[i+1].(int64)
			if a && b {
				pf.wRange = true
			}
		}
	}
	if pf.t0.ToUnicode != nil {
		b, err := pf.t0.ToUnicode.Decode()
		if err != nil {
			pf.probs = append(pf.probs, pdfread.Problem{Class: "tounicode-syntax", Detail: err.Error()})
		} else {
			pf.tu = pdfread.ParseToUnicode(b)
			pf.probs = append(pf.probs, pf.tu.Problems...)
			pf.bfrange = bytes.Contains(b, []byte("beginbfrange"))
		}
	}
	return pf
}

func (pf *pdfFont) describe() string {
	var sb strings.Builder
	t := pf.t0
	fmt.Fprintf(&sb, "font /%s %s: /%s Encoding /%s, descendant /%s, DW %g, W %s", pf.name, pf.ref, t.BaseFont, t.Encoding, t.CIDSubtype, t.DW, pdfread.Fmt(t.CIDFont["W"]))
	if t.HasCIDToGID {
		if t.CIDToGID != nil {
			fmt.Fprintf(&sb, ", CIDToGIDMap stream %v", t.CIDToGID)
		} else {
			fmt.Fprintf(&sb, ", CIDToGIDMap %s", pdfread.Fmt(t.CIDToGIDObj))
		}
	} else {
		sb.WriteString(", no CIDToGIDMap")
	}
	if pf.prog != nil {
		kind := "TrueType"
		if pf.prog.IsCFF {
			kind = "CFF, name-keyed"
			if pf.cidKeyed {
				kind = "CFF, CID-keyed"
			}
		}
		fmt.Fprintf(&sb, ", %s program (%s) with %d glyphs", t.FontFileKey, kind, pf.prog.N)
	} else {
		fmt.Fprintf(&sb, ", program: %s", pf.progErr)
	}
	return sb.String()
}

// roundHalf reports the integers that "rounding x to the nearest integer" allows (both
// neighbours for an exact half).
func roundOK(x float64, got float64) bool {
	fl := math.Floor(x)
	if x-fl == 0.5 {
		return got == fl || got == fl+1
	}
	return got == math.Floor(x+0.5)
}

// clusterText is the part of s that the cluster starting at byte c covers, given all cluster
// starts of the text.
func clusterText(s string, c int, starts []int) string {
	end := len(s)
	for _, o := range starts {
		if o > c && o < end {
			end = o
		}
	}
	if c < 0 || c > len(s) {
		return ""
	}
	return s[c:end]
}

// docModel is what was asked of the writer.
type docModel struct {
	subset bool
	pages  [][]drawL
}

// mixedDirections reports whether some font is laid out both with horizontal and with vertical
// glyphs in the document.
func (m *docModel) mixedDirections() bool {
	type dirs struct{ h, v bool }
	seen := map[*fontSrc]*dirs{}
	for _, pg := range m.pages {
		for _, dr := range pg {
			for _, sp := range dr.spans {
				for _, g := range sp.glyphs {
					d := seen[sp.src]
					if d == nil {
						d = &dirs{}
						seen[sp.src] = d
					}
					if g.vertical {
						d.v = true
					} else {
						d.h = true
					}
				}
			}
		}
	}
	for _, d := range seen {
		if d.h && d.v {
			return true
		}
	}
	return false
}

// checkPDF validates one document against the layouts that were rendered into it. It returns the
// findings and a key that identifies the document up to clock-dependent bytes.
func checkPDF(data []byte, m *docModel, r *fw.R) (*findings, [20]byte) {
	f := &findings{}
	key := sha1.Sum(data)
	d, err := pdfread.Parse(data)
	if err != nil {
		f.add("pdf-parse", "%v", err)
		return f, key
	}
	pages, _ := d.Pages()
	if len(pages) != len(m.pages) {
		f.add("page-count", "%d pages in the file, %d were made", len(pages), len(m.pages))
		return f, key
	}
	h := sha1.New()
	fonts := map[string]*pdfFont{} // by reference: one font object may be used on several pages
	glyphsChecked := 0
	for pi, pg := range pages {
		where := fmt.Sprintf("page %d", pi+1)
		h.Write(pg.Content)
		ops, err := pdfread.ParseContent(pg.Content)
		if err != nil {
			f.add("content-syntax", "%s: %v", where, err)
			continue
		}
		res := d.ResourceCategory(pg.Resources, "Font")
		byName := map[pdfread.Name]*pdfFont{}
		names := make([]string, 0, len(res))
		for n := range res {
			names = append(names, string(n))
		}
		sort.Strings(names)
		for _, n := range names {
			v := res[pdfread.Name(n)]
			ref := pdfread.Fmt(v)
			pf, ok := fonts[ref]
			if !ok {
				pf = readFont(d, pdfread.Name(n), v)
				fonts[ref] = pf
				if pf.bfrange {
					r.Outcome("notation:ToUnicode-bfrange")
				}
				if pf.wRange {
					r.Outcome("notation:W-first-last-width")
				}
				fmt.Fprintf(h, "|%s|", pf.describe())
				if pf.tu != nil {
					ks := make([]int, 0, len(pf.tu.Map))
					for c := range pf.tu.Map {
						ks = append(ks, c)
					}
					sort.Ints(ks)
					for _, c := range ks {
						fmt.Fprintf(h, "%d>%q,", c, pf.tu.Map[c])
					}
				}
				if pf.prog != nil {
					for g := 0; g < pf.prog.N && g < 64; g++ {
						fmt.Fprintf(h, "%s;", pf.prog.OutlineKey(g))
					}
				}
			}
			byName[pdfread.Name(n)] = pf
			for _, p := range pf.probs {
				f.add(p.Class, "%s: font /%s: %s", where, n, p.Detail)
			}
		}
		shown, probs := pdfread.InterpretText(ops, func(n pdfread.Name) pdfread.TextFont {
			if pf, ok := byName[n]; ok && pf.t0.CIDFont != nil {
				return pf
			}
			return nil
		})
		for _, p := range probs {
			f.add(p.Class, "%s: %s", where, p.Detail)
		}
		// text objects in order <-> spans in order
		var spans []*spanL
		var owner []*drawL
		for di := range m.pages[pi] {
			dr := &m.pages[pi][di]
			for si := range dr.spans {
				spans = append(spans, &dr.spans[si])
				owner = append(owner, dr)
			}
		}
		nBT := 0
		for _, op := range ops {
			if op.Operator == "BT" {
				nBT++
			}
		}
		if nBT != len(spans) {
			f.add("text-object-count", "%s: %d text objects for %d laid-out spans; content: %s", where, nBT, len(spans), clip(pg.Content))
			continue
		}
		byObj := make([][]pdfread.Shown, nBT)
		for _, sh := range shown {
			if sh.TextObject >= 0 && sh.TextObject < nBT {
				byObj[sh.TextObject] = append(byObj[sh.TextObject], sh)
			}
		}
		for bi, sp := range spans {
			dr := owner[bi]
			gs := byObj[bi]
			ctx := func() string {
				return fmt.Sprintf("%s, text object %d; layout: %s; content stream: %s", where, bi+1, sp.String(), clip(pg.Content))
			}
			if len(gs) != len(sp.glyphs) {
				f.add("glyph-count", "%d character codes are shown for %d laid-out glyphs; %s", len(gs), len(sp.glyphs), ctx())
				continue
			}
			var starts []int
			for _, s2 := range dr.spans {
				for _, g := range s2.glyphs {
					starts = append(starts, g.cluster)
				}
			}
			consequence := false // the placement clauses are skipped after a writing-mode mismatch
			for i, sh := range gs {
				g := sp.glyphs[i]
				pf := byName[sh.FontName]
				src := sp.src
				glyphsChecked++
				r.Outcome("font:" + string(pf.t0.CIDSubtype) + "/" + string(pf.t0.Encoding) + "/" + string(pf.t0.FontFileKey))

				// --- glyph selection: code -> CID -> GID -> outline in the embedded program
				cid := sh.Code
				gid, viaProgram, ok := pf.t0.GID(cid)
				switch {
				case pf.prog == nil:
					f.add("font-program-unreadable", "%s: %s; %s", pf.describe(), pf.progErr, ctx())
				case !ok:
					f.add("glyph-selection", "code <%04X> = CID %d has no entry in the CIDToGIDMap (%d entries); %s; %s", sh.Code, cid, len(pf.t0.CIDToGID), pf.describe(), ctx())
				case viaProgram && pf.cidKeyed:
					r.Outcome("skipped:cid-keyed-cff-charset-not-read")
				case viaProgram && !pf.prog.IsCFF:
					f.add("font-dict", "CIDFontType0 with a program that has no CFF table; %s", pf.describe())
				default:
					for _, p := range pf.prog.Patched {
						r.Outcome("embedded program re-wrapped for x/image: " + strings.SplitN(p, " ", 2)[0])
					}
					want := src.fr.OutlineKey(g.id)
					got := pf.prog.OutlineKey(gid)
					if gid >= pf.prog.N {
						got = fmt.Sprintf("(glyph index %d is outside the %d glyphs of the program)", gid, pf.prog.N)
					}
					if g.id == 0 && got != want {
						// a character the font does not have is shown with .notdef; which shape stands
						// for a missing character (the subsetters empty it) is not part of the statement
						r.Outcome("notdef:outline-not-compared")
					} else if got != want {
						class := "glyph-outline"
						why := ""
						switch {
						case viaProgram && pf.t0.HasCIDToGID && pf.t0.CIDToGID != nil && cid < len(pf.t0.CIDToGID) && pf.prog.OutlineKey(int(pf.t0.CIDToGID[cid])) == want:
							class = "glyph-outline:cidfonttype0-with-cidtogidmap"
							why = fmt.Sprintf(" The CIDFont dictionary carries a CIDToGIDMap that would map CID %d to glyph %d, which is the laid-out glyph, but ISO 32000-1 Table 117 defines CIDToGIDMap for Type 2 CIDFonts only: for a CIDFontType0 whose CFF program has no CIDFont operators the CID itself is the glyph index (9.7.4.2).", cid, pf.t0.CIDToGID[cid])
						case m.subset && strings.HasPrefix(string(pf.t0.BaseFont), "SUBSET+") && pf.prog.N == src.fr.N && src.fr.N > 64 && pf.prog.OutlineKey(g.id) == want:
							class = "glyph-outline:subset-label-on-full-program"
							why = fmt.Sprintf(" The font is named %s and the codes are subset-local, but the embedded program is the complete font (%d glyphs, the laid-out glyph is at its original index %d) and no CIDToGIDMap is written.", pf.t0.BaseFont, pf.prog.N, g.id)
						}
						f.add(class, "glyph %d of the span (%q, source glyph %d): code <%04X> -> CID %d -> glyph %d of the embedded program, whose outline differs from the source glyph's.%s\n embedded: %s\n source:   %s\n %s; %s",
							i, g.text, g.id, sh.Code, cid, gid, why, clipS(got, 160), clipS(want, 160), pf.describe(), ctx())
					} else if we, ge := src.fr.ExactKey(g.id), pf.prog.ExactKey(gid); we != ge {
						// same outline as x/image reads it, but not as the exact readers do
						// (x/image rounds fractional charstring operands and truncates implied points)
						f.add("glyph-outline:exact-reader", "glyph %d of the span (%q, source glyph %d): code <%04X> -> glyph %d of the embedded program: x/image reads equal outlines, the exact reader does not.\n embedded: %s\n source:   %s\n %s; %s",
							i, g.text, g.id, sh.Code, gid, clipS(ge, 300), clipS(we, 300), pf.describe(), ctx())
					} else {
						r.Outcome("outline-equal")
						if want == "" {
							r.Outcome("outline-equal:empty-glyph")
						}
						ea, err1 := pf.prog.Advance(gid)
						sa, err2 := src.fr.Advance(g.id)
						if err1 != nil || err2 != nil || ea != sa {
							f.add("glyph-advance-embedded", "glyph %d of the span (source glyph %d): the embedded program gives glyph %d the advance %d (%v), the source font %d (%v); %s", i, g.id, gid, ea, err1, sa, err2, ctx())
						}
					}
				}

				// --- width array
				sa, _ := src.fr.Advance(g.id)
				wantW := 1000 * float64(sa) / float64(src.fr.Upem)
				if pf.t0.WMode == 0 || !g.vertical {
					if gotW := pf.t0.Width(cid); !roundOK(wantW, gotW) {
						f.add("width-array", "glyph %d of the span (source glyph %d, advance %d/%d em): W/DW gives CID %d the width %g, expected round(%.4f); %s; %s", i, g.id, sa, src.fr.Upem, cid, gotW, wantW, pf.describe(), ctx())
					} else {
						r.Outcome("width-equal")
						if _, inW := pf.t0.W[cid]; !inW {
							r.Outcome("width-equal:from-DW")
						}
					}
				}

				// --- ToUnicode
				if g.id == 0 {
					// .notdef stands for every character the font lacks: no single text is recoverable
					r.Outcome("notdef:tounicode-not-compared")
				} else if pf.tu == nil {
					f.add("tounicode", "font /%s has no ToUnicode map; %s", pf.name, ctx())
				} else {
					got, have := pf.tu.Map[sh.Code]
					ct := clusterText(dr.s, g.cluster, starts)
					okU := false
					var accept []string
					for _, rn := range src.fr.RunesOf(g.id) {
						accept = append(accept, string(rn))
						if got == string(rn) {
							okU = true
						}
					}
					if ct != "" {
						accept = append(accept, ct)
						if got == ct {
							okU = true
						}
					}
					switch {
					case have && okU:
						r.Outcome("tounicode-ok")
						if len(src.fr.RunesOf(g.id)) == 0 {
							r.Outcome("tounicode-ok:glyph-not-in-cmap")
						}
					case len(src.fr.RunesOf(g.id)) == 0 && (!have || got == "\x00"):
						f.add("tounicode:glyph-not-in-cmap", "glyph %d of the span: source glyph %d (shaped from %q) is not in the font's cmap (a substituted glyph); ToUnicode maps code <%04X> to %q (present=%v), so a reader cannot recover %q; %s; %s", i, g.id, ct, sh.Code, got, have, ct, pf.describe(), ctx())
					default:
						f.add("tounicode", "glyph %d of the span: source glyph %d (cluster text %q): ToUnicode maps code <%04X> to %q (present=%v), acceptable %q; %s; %s", i, g.id, ct, sh.Code, got, have, accept, pf.describe(), ctx())
					}
				}

				// --- placement
				if g.vertical != (sh.Mode == 1) {
					if g.vertical {
						f.add("writing-mode:vertical-glyphs-in-horizontal-font", "glyph %d of the span is laid out vertically (advance (%d,%d)), but font /%s has Encoding /%s (writing mode 0), so a reader advances horizontally by W; %s; %s", i, g.xadv, g.yadv, pf.name, pf.t0.Encoding, pf.describe(), ctx())
					} else {
						f.add("writing-mode:horizontal-glyphs-in-vertical-font", "glyph %d of the span is laid out horizontally, but font /%s has Encoding /%s; %s; %s", i, pf.name, pf.t0.Encoding, pf.describe(), ctx())
					}
					consequence = true
				}
				if consequence {
					r.Outcome("placement-skipped:writing-mode-mismatch")
					continue
				}
				em := 1000.0
				// displacement in thousandths of the font size
				gotX, gotY := sh.Tx/sh.Size*em, sh.Ty/sh.Size*em
				wantX, wantY := em*float64(g.xadv)/float64(sp.upem), em*float64(g.yadv)/float64(sp.upem)
				errAdv := math.Max(math.Abs(gotX-wantX), math.Abs(gotY-wantY))
				r.Max(fmt.Sprintf("pen displacement error, writing mode %d (1/1000 em)", sh.Mode), errAdv)
				if sh.AdjAfter > 0 {
					r.Max("pen displacement error after a pen-back (positive) TJ number (1/1000 em)", errAdv)
				}
				if !(errAdv <= 1+1e-6) {
					class := "pen-advance"
					fontW := sh.W
					adj := sh.AdjAfter
					switch {
					case errAdv < 2 && adj > 0:
						// A correctly rounded W entry and a correctly rounded TJ number are each at
						// most 0.5 off. -int(x+0.5) truncates toward zero: for a negative x (a number
						// that moves the pen back) it is up to 1.5 off, up to 2 together with W.
						class = "pen-advance:negative-adjustment-truncated"
					case sh.Mode == 1:
						class = "pen-advance:vertical"
					}
					f.add(class, "glyph %d of the span (source glyph %d): the pen moves by (%.4f, %.4f)/1000 em = font displacement %g + TJ adjustment %g + Tc %g, the layout advances by (%.4f, %.4f)/1000 em (error %.4f > 1); %s; %s",
						i, g.id, gotX, gotY, fontW, -adj, sh.Tc, wantX, wantY, errAdv, pf.describe(), ctx())
				} else {
					r.Outcome("pen-ok")
					if sh.AdjAfter != 0 {
						r.Outcome("pen-ok:with-TJ-adjustment")
					}
				}
				// text rendering matrix: scale / rotation of the em square, and the origin
				trm := pdfread.Mat{sh.Size * sh.Th, 0, 0, sh.Size, 0, sh.Rise}.Mul(sh.Tm).Mul(sh.CTM)
				ex, ey := rot(sp.rotation, sp.size, 0)
				ex, ey = applyLin(dr.m, ex, ey)
				fx, fy := rot(sp.rotation, sp.italic*sp.size, sp.size)
				fx, fy = applyLin(dr.m, fx, fy)
				scale := math.Hypot(dr.m[0], dr.m[1])
				errLin := math.Max(math.Max(math.Abs(trm[0]/ptPerMm-ex), math.Abs(trm[1]/ptPerMm-ey)), math.Max(math.Abs(trm[2]/ptPerMm-fx), math.Abs(trm[3]/ptPerMm-fy)))
				r.Max("text matrix error (1/1000 em)", errLin/(sp.size*scale)*1000)
				if !(errLin <= 1e-4*sp.size*scale) {
					f.add("text-matrix", "glyph %d of the span: the em square is mapped to x-axis (%.6g,%.6g) y-axis (%.6g,%.6g) mm, the layout (size %.6g mm, rotation %g, view %v) asks for (%.6g,%.6g) (%.6g,%.6g); %s", i, trm[0]/ptPerMm, trm[1]/ptPerMm, trm[2]/ptPerMm, trm[3]/ptPerMm, sp.size, sp.rotation, dr.m, ex, ey, fx, fy, ctx())
					continue
				}
				if i == 0 {
					ox, oy := 0.0, 0.0
					if sh.Mode == 1 {
						// 9.7.4.3: in vertical mode the glyph's (horizontal) origin lies at the
						// pen position minus the position vector v
						_, vx, vy := pf.t0.Vertical(cid)
						ox, oy = -vx/1000, -vy/1000
					}
					px, py := trm.Apply(ox, oy)
					px, py = px/ptPerMm, py/ptPerMm
					qx, qy := sp.glyphOrigin(0)
					qx, qy = apply(dr.m, qx, qy)
					errO := math.Hypot(px-qx, py-qy) / (sp.size * scale) * 1000
					class := "text-origin"
					switch {
					case g.vertical:
						class = "text-origin:vertical-upright"
					case sp.rotation != 0:
						class = "text-origin:vertical-rotated"
					}
					r.Max(class+" error (1/1000 em)", errO)
					if errO > 1+2e-5/(sp.size*scale)*1000 {
						f.add(class, "the origin of the first glyph (source glyph %d, offset (%d,%d) font units) is at (%.6f, %.6f) mm in the PDF, the layout puts it at (%.6f, %.6f) mm: %.3f/1000 em apart; %s", g.id, g.xoff, g.yoff, px, py, qx, qy, errO, ctx())
					} else {
						r.Outcome("origin-ok")
					}
				}
			}
		}
	}
	r.Count("glyphs shown and checked", int64(glyphsChecked))
	// One root cause, one class: when a document writes the same font both horizontally and
	// vertically (decided from the input), wrong glyphs, widths, ToUnicode entries and advances
	// of that document are reported once, under a class of their own.
	if m.mixedDirections() {
		var kept []finding
		var first *finding
		n := 0
		for i := range f.list {
			switch f.list[i].class {
			case "glyph-outline", "glyph-selection", "width-array", "tounicode", "pen-advance", "glyph-advance-embedded", "glyph-outline:exact-reader":
				if first == nil {
					first = &f.list[i]
				}
				n++
			default:
				kept = append(kept, f.list[i])
			}
		}
		if first != nil {
			kept = append(kept, finding{"codes-reassigned:font-written-horizontally-and-vertically",
				fmt.Sprintf("the document writes one font with horizontal and with vertical (upright) glyphs, i.e. through two font objects; %d clauses fail for it (glyph, width, ToUnicode, advance), the first: [%s] %s", n, first.class, first.detail)})
		}
		f.list = kept
	}
	copy(key[:], h.Sum(nil))
	return f, key
}

func clip(b []byte) string { return clipS(string(b), 400) }

func clipS(s string, n int) string {
	if len(s) > n {
		return fmt.Sprintf("%q… (%d bytes)", s[:n], len(s))
	}
	return fmt.Sprintf("%q", s)
}
