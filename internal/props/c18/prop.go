package c18

import (
	"fmt"
	"regexp"
	"strconv"
	"strings"

	"verif/internal/fw"
)

func allKinds() []int {
	ks := make([]int, nBaseKinds)
	for i := range ks {
		ks[i] = i
	}
	return ks
}

func families(tier string) []fw.Family {
	both := []bool{true, false}
	if tier == "thorough" {
		strs := stringsUpTo(tokens, 4)
		return []fw.Family{
			familySubsetter(),
			familyToPath(fmt.Sprintf("text to paths: %d strings of at most 4 tokens x 3 fonts x 6 faces (plain, with offsets, each also faux italic, two with OpenType features set on the font)", len(strs)), strs),
			familyRenderAsPath(fmt.Sprintf("RenderAsPath: %d strings of at most 4 tokens x 3 fonts x %d layouts", len(strs), len(kinds)), strs),
			familySingle(fmt.Sprintf("PDF, one text: %d strings of at most 4 tokens x 3 fonts x %d layouts x SubsetFonts on/off", len(strs), nBaseKinds), strs, allKinds(), both),
			familySingle(fmt.Sprintf("PDF, ToUnicode ranges and W ranges: %d strings over {a,b,c}, digit runs and all pairs of consecutive code points (ASCII, Latin-1 letters) x 3 fonts x NewTextLine x SubsetFonts on/off", len(rangeStrings())), rangeStrings(), []int{kindLine}, both),
			// characters with upright and with sideways orientation in turn (in vertical text with the
			// natural orientation the font object changes between Identity-V and Identity-H at every turn)
			familySingle("PDF, vertical text whose runs turn between upright (CJK) and sideways (Latin) up to four times x 3 fonts x the 5 vertical layouts x SubsetFonts on/off", mixedOrientationStrings, []int{4, 5, 8, 9, 10}, both),
			familySingle(fmt.Sprintf("PDF, faux italic faces: %d strings of at most 4 tokens x 3 fonts x {NewTextLine, VerticalRL sideways, VerticalLR sideways with face offsets under a rotating view, VerticalRL upright} x SubsetFonts on", len(strs)), strs, italicKinds, []bool{true}),
			familyPairs("PDF, two texts", pairStrings, both),
			familyFeaturePairs(),
			familyReuse("PDF, one font object for two documents in a row", pairStrings),
			familyWidthRuns(0),
		}
	}
	// quick: a document with a fully embedded font costs 40 ms and more, one with a subsetted font
	// 2 ms: full embedding gets all layouts up to 2 tokens and two layouts with 3 tokens
	strs := stringsUpTo(tokens, 3)
	strs2 := stringsUpTo(tokens, 2)
	exactly3 := strs[len(strs2):]
	return []fw.Family{
		familySubsetter(),
		familyToPath(fmt.Sprintf("text to paths: %d strings of at most 3 tokens x 3 fonts x 6 faces (plain, with offsets, each also faux italic, two with OpenType features set on the font)", len(strs)), strs),
		familyRenderAsPath(fmt.Sprintf("RenderAsPath: %d strings of at most 3 tokens x 3 fonts x %d layouts", len(strs), len(kinds)), strs),
		familySingle(fmt.Sprintf("PDF, one text, SubsetFonts on: %d strings of at most 3 tokens x 3 fonts x %d layouts", len(strs), nBaseKinds), strs, allKinds(), []bool{true}),
		familySingle(fmt.Sprintf("PDF, one text, SubsetFonts off: %d strings of at most 2 tokens x 3 fonts x %d layouts", len(strs2), nBaseKinds), strs2, allKinds(), []bool{false}),
		familySingle(fmt.Sprintf("PDF, one text, SubsetFonts off: %d strings of 3 tokens x 3 fonts x {NewTextLine Left, NewTextBox justified}", len(exactly3)), exactly3, []int{kindLine, kindJustified}, []bool{false}),
		familySingle(fmt.Sprintf("PDF, ToUnicode ranges and W ranges: %d strings over {a,b,c}, digit runs and all pairs of consecutive code points (ASCII, Latin-1 letters) x 3 fonts x NewTextLine x SubsetFonts on/off", len(rangeStrings())), rangeStrings(), []int{kindLine}, both),
		// characters with upright and with sideways orientation in turn (in vertical text with the
		// natural orientation the font object changes between Identity-V and Identity-H at every turn)
		familySingle("PDF, vertical text whose runs turn between upright (CJK) and sideways (Latin) up to four times x 3 fonts x the 5 vertical layouts x SubsetFonts on/off", mixedOrientationStrings, []int{4, 5, 8, 9, 10}, both),
		familySingle(fmt.Sprintf("PDF, faux italic faces: %d strings of at most 2 tokens x 3 fonts x {NewTextLine, VerticalRL sideways, VerticalLR sideways with face offsets under a rotating view, VerticalRL upright} x SubsetFonts on", len(strs2)), strs2, italicKinds, []bool{true}),
		familyPairs("PDF, two texts", pairStrings[:3], both),
		familyFeaturePairs(),
		familyReuse("PDF, one font object for two documents in a row", pairStrings[:3]),
		familyWidthRuns(0),
	}
}

var italicKinds = []int{nBaseKinds, nBaseKinds + 1, nBaseKinds + 2, nBaseKinds + 3}

var mixedOrientationStrings = []string{"ab漢字cd日本", "漢ab字cd本", "a漢b字c", "漢字ab", "ab漢", "Ab漢字 cd日本ef"}

// rangeStrings exercise the compact notations of the writer that the 8-token alphabet cannot
// reach: consecutive codes with consecutive Unicode values (ToUnicode bfrange) and six or more
// consecutive codes of one width (the "first last width" groups of the W array).
func rangeStrings() []string {
	out := stringsUpTo([]string{"a", "b", "c"}, 3)[1:]
	out = append(out, "0123456", "a0123456b", "01234567x89", "x0123456", "abc0123456", "AV0123456é", "....... ", "iiiiiii")
	// more than 92 distinct glyphs: the low byte of a code becomes 0x5C (backslash), 0x28 and 0x29 (parentheses) and 0x0D
	all := ""
	for c := rune(0x20); c < 0x7f; c++ {
		all += string(c)
	}
	out = append(out, all, all+"éèêëàáâäùúûü")
	// every pair of consecutive code points of printable ASCII and of the Latin-1 letters: their
	// glyph ids are consecutive in some fonts and far apart in others (ToUnicode bfrange merging
	// must follow the codes, not only the characters)
	for c := rune(0x21); c < 0x7E; c++ {
		out = append(out, string([]rune{c, c + 1}))
	}
	for c := rune(0xC0); c < 0xFF; c++ {
		out = append(out, string([]rune{c, c + 1}))
	}
	return out
}

func caseMatches(re string) func(*fw.Violation) bool {
	rx := regexp.MustCompile(re)
	return func(v *fw.Violation) bool { return rx.MatchString(v.Case) }
}

// Prop is the C18 check.
func Prop() *fw.Property {
	return &fw.Property{
		ID:    "C18",
		Level: "model_checking",
		Rule: "states = PDF documents, transitions = text draws (API calls that lay out or draw text), validated = documents whose every shown character code was followed through the written font dictionary into the embedded font program and compared with the layout. " +
			"Enumerated completely: all strings of at most 3 (quick) / 4 (thorough) tokens over {A, V, f, i, é, space, x, -} x {DejaVuSerif.ttf (TrueType), EBGaramond12-Regular.otf (CFF), Dynalight-Regular.otf (CFF)} x 8 layouts {NewTextLine Left, NewTextBox unbounded, NewTextBox 2.2 em wide justified (several lines, stretched glue), NewTextLine Right, RichText VerticalRL natural (rotated), RichText VerticalRL upright, NewTextLine with face offsets at 8 pt, NewTextLine under a rotating and scaling view} x {SubsetFonts on, off}; " +
			"pairs of texts (5 x 5 strings, 3 x 3 fonts, horizontal/vertical upright each, same page or a new page between them); one font object used for two documents in a row; all call orders of at most 5 Get calls over 4 glyph ids on the FontSubsetter; ToPath/TextWidth/NewTextLine and Text.RenderAsPath for every string, font and face/layout; strings derived from each font's own tables for the compact notations of the font dictionary (five characters of every advance class followed by one character of every distinct advance incl. the default width, every run of five consecutive glyph ids of one advance alone and followed by the next glyph, all printable ASCII/Latin-1 characters in order and interleaved: ToUnicode ranges over byte wraps, more than 100 ToUnicode entries). " +
			"distinct_nontrivial counts globally distinct documents (family \"documents\", keyed by decoded content streams, font dictionaries, ToUnicode maps and glyph outlines) plus the cases of the non-PDF families.",
		Assumptions: []string{
			"bound: strings of at most 3/4 tokens over 8 tokens, one face size per layout, Latin script only (no right-to-left runs, no vertical scripts, no embedded objects, no faux bold, no decorations; faux italic faces in four layouts of their own), the three bundled fonts named above; Compress is always on",
			"the layout (glyph ids, advances, offsets, span positions as reported by Text.WalkSpans and FontFace.Glyphs) is the input of the property: shaping and line breaking are not judged here (C16, C17)",
			"trusted base: internal/pdfread (ISO 32000-1 reader incl. the text-showing interpreter textshow.go and the Type0/CIDFont/ToUnicode reader fonts.go, both written from the specification), golang.org/x/image/font/sfnt for outlines, advances and cmap of source and embedded programs, internal/fontread/glyf.go (exact TrueType outlines; cross-checked against x/image on all 3528 glyphs of DejaVuSerif to 0.5 font units, which is x/image's truncation of implied points), internal/oracle (dense Hausdorff)",
			"x/image/font/sfnt does not parse the subsetted programs as they are embedded (TrueType subsets have no cmap table, CFF subsets have a post table shorter than 32 bytes): internal/fontread re-wraps them with a stand-in cmap/post table and leaves glyf/loca/CFF/head/maxp/hhea/hmtx untouched; the evidence tallies how often (\"embedded program re-wrapped\")",
			"embedded versus source outlines are compared exactly (same reader on both sides); ToPath and RenderAsPath are compared with exact source outlines to 1e-6 of the font size (segments pair up, else two-sided dense Hausdorff); RenderAsPath is called with resolution 0 (no alignment of baselines to a pixel raster)",
			"pen displacements and the first glyph origin of every text object are compared to 1/1000 em (the statement's tolerance); W/DW entries must be round(1000 advance/unitsPerEm), an exact half may go either way",
			"a CID-keyed CFF program (charset lookup) would be skipped and tallied; none occurs",
			"ToUnicode: accepted are the runes the source cmap (up to U+1FFFF) maps to the glyph and the text of the glyph's cluster",
		},
		Families: families,
		KnownPredicates: map[string]func(*fw.Violation) bool{
			// SubsetFonts=false with a CFF font somewhere in the document
			"cff-font-full-embedding": caseMatches(`SubsetFonts:false.* of (EBGaramond|Dynalight) `),
			// a vertical layout with upright glyphs (the only one that uses the Identity-V font objects)
			"vertical-upright-layout": caseMatches(`SetTextOrientation\(Upright\)`),
			// a vertical layout with rotated (natural) glyphs
			"vertical-rotated-layout": caseMatches(`SetWritingMode\(VerticalRL\)\.WriteString`),
			// a CFF font whose program is subsetted a second time: second document of one font
			// object, or one document that writes it horizontally and vertically
			"cff-font-subsetted-again": func(v *fw.Violation) bool {
				cff := regexp.MustCompile(` of (EBGaramond|Dynalight) `).MatchString(v.Case)
				again := strings.HasPrefix(v.Case, "with one font object loaded once") ||
					(strings.Contains(v.Case, "NewTextLine") && strings.Contains(v.Case, "Upright"))
				return cff && again && strings.Contains(v.Case, "SubsetFonts:true")
			},
			// one font drawn horizontally and vertically upright in one document
			"font-horizontal-and-vertical": func(v *fw.Violation) bool {
				return strings.Contains(v.Case, "NewTextLine") && strings.Contains(v.Case, "Upright")
			},
			// the pen is off by more than 1 but less than 2 thousandths of an em
			"pen-error-below-2": func(v *fw.Violation) bool {
				m := regexp.MustCompile(`\(error ([0-9.]+) > 1\)`).FindStringSubmatch(v.Detail)
				if m == nil {
					return false
				}
				e, err := strconv.ParseFloat(m[1], 64)
				return err == nil && e < 2
			},
			// EBGaramond substitutes glyphs that its cmap does not contain (f before f/i, hyphen between capitals)
			"ebgaramond": caseMatches(` of EBGaramond `),
		},
	}
}
