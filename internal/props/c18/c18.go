// Package c18: embedded fonts and glyph paths.
//
// States are PDF documents, transitions are text draws; a document is validated when every
// character code it shows was followed through the font dictionary that was actually written
// (code -> CID -> glyph index, ISO 32000-1 9.7.4.2) into the embedded font program and compared
// with what canvas had laid out. The embedded and the source programs are read with
// golang.org/x/image/font/sfnt (internal/fontread), never with github.com/tdewolff/font.
package c18

import (
	"bytes"
	"fmt"
	"math"
	"os"
	"strconv"
	"strings"

	"github.com/tdewolff/canvas"
	"github.com/tdewolff/canvas/renderers/pdf"
	"github.com/tdewolff/canvas/text"

	"verif/internal/fontread"
	"verif/internal/fw"
	"verif/internal/oracle"
)

// ---------------------------------------------------------------------------------------------
// reporting

var recorded = map[string]int{}

var perClass = func() int {
	// C18_PERCLASS lifts the cap for in-process exploration (cmd tools); the check itself uses 6
	if n, err := strconv.Atoi(os.Getenv("C18_PERCLASS")); err == nil && n > 0 {
		return n
	}
	return 6
}()

// report passes a violation to the framework, at most perClass per class and worker (the
// enumeration is simplest-first, so these are the smallest ones); all are tallied.
func report(r *fw.R, class, detail string) {
	r.Outcome("violation:" + class)
	r.Count("violations_total", 1)
	if recorded[class] < perClass {
		recorded[class]++
		r.Violate(class, detail)
		return
	}
	r.Count("violations beyond the first "+fmt.Sprint(perClass)+" of their class in a worker (tallied, not listed)", 1)
}

// ---------------------------------------------------------------------------------------------
// documents

type step struct {
	newPage bool // start a new page before this draw
	font    int
	kind    int
	s       string
	shift   bool // draw 30 mm further up (second text of a page)
}

type docSpec struct {
	subset bool
	steps  []step
	// features: Font.SetFeatures on every font object of the document before its first face (the shaper
	// then substitutes glyphs that no character maps to, e.g. small capitals)
	features string
}

func (d docSpec) String() string {
	var sb strings.Builder
	fmt.Fprintf(&sb, "pdf.New(100,80,{Compress:true SubsetFonts:%v})", d.subset)
	if d.features != "" {
		fmt.Fprintf(&sb, "; every font with SetFeatures(%q)", d.features)
	}
	for _, st := range d.steps {
		if st.newPage {
			sb.WriteString("; NewPage(100,80)")
		}
		view := "view"
		if st.shift {
			view = "Translate(0,30)*view"
		}
		fmt.Fprintf(&sb, "; RenderText(%s of %s with s=%q, %s)", kinds[st.kind].name, fontMenu[st.font].name, st.s, view)
	}
	sb.WriteString("; Close()")
	return sb.String()
}

// render runs the steps on a fresh writer. cfonts are the font objects to use (loaded afresh by
// the caller); it returns the bytes, the model and the number of API calls.
func render(spec docSpec, cfonts map[int]*canvas.Font) (data []byte, m *docModel, calls int64, pan string) {
	defer func() {
		if e := recover(); e != nil {
			pan = fmt.Sprint(e)
			if k := strings.IndexByte(pan, '\n'); k >= 0 {
				pan = pan[:k]
			}
		}
	}()
	buf := &bytes.Buffer{}
	p := pdf.New(buf, 100, 80, &pdf.Options{Compress: true, SubsetFonts: spec.subset, ImageEncoding: canvas.Lossless})
	m = &docModel{subset: spec.subset, pages: [][]drawL{nil}}
	for _, st := range spec.steps {
		if st.newPage {
			p.NewPage(100, 80)
			m.pages = append(m.pages, nil)
		}
		cf, ok := cfonts[st.font]
		if !ok {
			cf = fontMenu[st.font].fresh()
			if spec.features != "" {
				cf.SetFeatures(spec.features)
			}
			cfonts[st.font] = cf
		}
		k := &kinds[st.kind]
		t := k.build(k.face(cf), st.s)
		view := k.m
		if st.shift {
			view = canvas.Identity.Translate(0, 30).Mul(view)
		}
		dr := record(t, fontMenu[st.font], st.kind, st.s)
		dr.m = matOf(view)
		p.RenderText(t, view)
		calls++
		m.pages[len(m.pages)-1] = append(m.pages[len(m.pages)-1], dr)
	}
	if err := p.Close(); err != nil {
		panic(err)
	}
	return buf.Bytes(), m, calls, ""
}

var seenDocs = map[[20]byte]struct{}{}

// checkDoc renders and validates one document.
func checkDoc(spec docSpec, cfonts map[int]*canvas.Font, r *fw.R, fam string) {
	data, m, calls, pan := render(spec, cfonts)
	r.Transitions += calls
	if pan != "" {
		report(r, "panic: "+pan, "the writer panicked: "+pan)
		return
	}
	fs, key := checkPDF(data, m, r)
	if _, dup := seenDocs[key]; !dup {
		seenDocs[key] = struct{}{}
		r.States++
	}
	r.SetFamily("documents")
	r.Nontrivial(fmt.Sprintf("%x", key[:12]))
	r.SetFamily(fam)
	if len(fs.list) == 0 {
		r.Outcome("document-valid")
	}
	complete := true
	for _, v := range fs.list {
		report(r, v.class, v.detail)
		if v.class == "pdf-parse" || v.class == "page-count" || v.class == "content-syntax" || v.class == "text-object-count" || v.class == "glyph-count" {
			complete = false
		}
	}
	if complete {
		r.Validated++
	}
}

// split decodes i = outer*inner + c and rotates the inner digit by the outer one. The driver
// gives case i to worker i mod 16; with an inner period that is a multiple of 16 every worker
// would see the same few (font, layout, embedding) combinations for all strings, the slow
// combinations all on the same workers. The rotation spreads them; the outer digit (the string)
// stays the slowest, so the enumeration is still simplest-first.
func split(i int64, inner int) (outer int64, c int64) {
	outer = i / int64(inner)
	c = (i%int64(inner) + outer) % int64(inner)
	return
}

// ---------------------------------------------------------------------------------------------
// family: one text per document

func familySingle(name string, strs []string, kindSet []int, subsets []bool) fw.Family {
	nf, nk, ns := int64(len(fontMenu)), int64(len(kindSet)), int64(len(subsets))
	decode := func(i int64) docSpec {
		// the string is the slowest digit; the font (3, coprime to the 16 shards of the driver) the
		// fastest, so that every worker gets every layout and both embedding modes
		si, c := split(i, int(nk*ns*nf))
		d := oracle.Digits(c, int(nk), int(ns), int(nf))
		return docSpec{subset: subsets[d[1]], steps: []step{{font: d[2], kind: kindSet[d[0]], s: strs[si]}}}
	}
	return fw.Family{
		Name: name, N: ns * nk * nf * int64(len(strs)),
		Desc:  func(i int64) string { return decode(i).String() },
		Check: func(i int64, r *fw.R) { checkDoc(decode(i), map[int]*canvas.Font{}, r, name) },
	}
}

// ---------------------------------------------------------------------------------------------
// family: two texts per document (two fonts on one page; one font on two pages; one font
// horizontally and vertically)

var pairStrings = []string{"A", "fi", "é x", "i", "AV"}
var pairKinds = []int{kindLine, kindUpright}

func familyPairs(name string, pairStrings []string, subsets []bool) fw.Family {
	np, nk, nf := len(pairStrings), len(pairKinds), len(fontMenu)
	name = fmt.Sprintf("%s: %d x %d strings x 3 x 3 fonts x {line, vertical upright}^2 x {same page, new page} x SubsetFonts on/off", name, np, np)
	radices := []int{np, np, nk, nk, 2, len(subsets), nf, nf}
	inner := nk * nk * 2 * len(subsets) * nf * nf
	decode := func(i int64) docSpec {
		si, c := split(i, inner)
		d := append(oracle.Digits(si, np, np), oracle.Digits(c, radices[2:]...)...)
		return docSpec{subset: subsets[d[5]], steps: []step{
			{font: d[6], kind: pairKinds[d[2]], s: pairStrings[d[0]]},
			{newPage: d[4] == 1, font: d[7], kind: pairKinds[d[3]], s: pairStrings[d[1]], shift: true},
		}}
	}
	return fw.Family{
		Name: name, N: oracle.Prod(radices...),
		Desc:  func(i int64) string { return decode(i).String() },
		Check: func(i int64, r *fw.R) { checkDoc(decode(i), map[int]*canvas.Font{}, r, name) },
	}
}

// familyFeaturePairs: two texts in one document with one font whose OpenType features make the shaper
// substitute glyphs outside the character map (small capitals, old-style figures): the characters a
// reader recovers for them come from what was laid out, for the horizontal and for the vertical font
// object of the font alike.
func familyFeaturePairs() fw.Family {
	strs := []string{"hamburg", "fix 12", "a"}
	feats := []string{"smcp", "c2sc,onum"}
	radices := []int{len(strs), len(strs), len(pairKinds), len(pairKinds), 2, 2, len(fontMenu), len(feats)}
	decode := func(i int64) docSpec {
		d := oracle.Digits(i, radices...)
		return docSpec{subset: d[5] == 0, features: feats[d[7]], steps: []step{
			{font: d[6], kind: pairKinds[d[2]], s: strs[d[0]]},
			{newPage: d[4] == 1, font: d[6], kind: pairKinds[d[3]], s: strs[d[1]], shift: true},
		}}
	}
	name := "PDF, two texts with one font that has OpenType features set (smcp; c2sc,onum): 3 x 3 strings x {line, vertical upright}^2 x {same page, new page} x SubsetFonts on/off x 3 fonts"
	return fw.Family{
		Name: name, N: oracle.Prod(radices...),
		Desc:  func(i int64) string { return decode(i).String() },
		Check: func(i int64, r *fw.R) { checkDoc(decode(i), map[int]*canvas.Font{}, r, name) },
	}
}

// ---------------------------------------------------------------------------------------------
// family: one *canvas.Font object used for two documents in a row

func familyReuse(name string, pairStrings []string) fw.Family {
	np, nf := len(pairStrings), len(fontMenu)
	name = fmt.Sprintf("%s: %d x %d strings x 3 fonts x SubsetFonts on/off for each", name, np, np)
	radices := []int{np, np, 2, 2, nf}
	decode := func(i int64) (docSpec, docSpec) {
		d := oracle.Digits(i, radices...)
		return docSpec{subset: d[2] == 0, steps: []step{{font: d[4], kind: kindLine, s: pairStrings[d[0]]}}},
			docSpec{subset: d[3] == 0, steps: []step{{font: d[4], kind: kindLine, s: pairStrings[d[1]]}}}
	}
	return fw.Family{
		Name: name, N: oracle.Prod(radices...),
		Desc: func(i int64) string {
			a, b := decode(i)
			return "with one font object loaded once: first " + a.String() + fmt.Sprintf("; then Face(12pt).ToPath(%q)", b.steps[0].s) + "; then " + b.String() + " (ToPath and the second document are checked)"
		},
		Check: func(i int64, r *fw.R) {
			a, b := decode(i)
			cf := map[int]*canvas.Font{}
			if _, _, _, pan := render(a, cf); pan != "" {
				report(r, "panic: "+pan, "the writer panicked on the first document: "+pan)
				return
			}
			r.Transitions++
			// converting text to paths with the same font object still works after a PDF was written
			src := fontMenu[b.steps[0].font].load()
			face := cf[b.steps[0].font].Face(faceVariants[0].size, canvas.Black)
			toPathCheck(r, src, face, faceVariants[0], b.steps[0].s, face.Glyphs(b.steps[0].s), ":after-a-pdf-was-written-with-the-font-object")
			checkDoc(b, cf, r, name)
		},
	}
}

// ---------------------------------------------------------------------------------------------
// family: the glyph subsetter

var subsetIDs = []uint16{0, 5, 36, 65535}

func familySubsetter() fw.Family {
	// all call orders of 0..5 calls over 4 ids
	var offs []int64
	total := int64(0)
	for l, n := 0, int64(1); l <= 5; l, n = l+1, n*4 {
		offs = append(offs, total)
		total += n
	}
	decode := func(i int64) []uint16 {
		l := 0
		for l+1 < len(offs) && i >= offs[l+1] {
			l++
		}
		i -= offs[l]
		seq := make([]uint16, l)
		for k := l - 1; k >= 0; k-- {
			seq[k] = subsetIDs[i%4]
			i /= 4
		}
		return seq
	}
	name := "FontSubsetter: all call orders of at most 5 Get calls over the ids {0, 5, 36, 65535}"
	return fw.Family{
		Name: name, N: total,
		Desc: func(i int64) string {
			var parts []string
			for _, id := range decode(i) {
				parts = append(parts, fmt.Sprintf("Get(%d)", id))
			}
			return "NewFontSubsetter(); " + strings.Join(parts, "; ")
		},
		Check: func(i int64, r *fw.R) {
			seq := decode(i)
			sub := canvas.NewFontSubsetter()
			r.NontrivialIdx()
			r.States++
			code := map[uint16]uint16{} // what each id was given when it was first asked for
			fail := func(class, format string, a ...interface{}) { report(r, class, fmt.Sprintf(format, a...)) }
			if l := sub.List(); len(l) < 1 || l[0] != 0 {
				fail("subsetter-notdef", "a new subsetter lists %v, .notdef (0) must be at position 0", l)
				return
			}
			for n, id := range seq {
				c := sub.Get(id)
				r.Transitions++
				if old, seen := code[id]; seen && old != c {
					fail("subsetter-stable", "call %d: Get(%d) = %d, the same id got %d before", n+1, id, c, old)
					return
				}
				code[id] = c
				// idempotent: asking again for any id seen so far changes nothing
				before := append([]uint16(nil), sub.List()...)
				var known []uint16 // in a fixed order: the first failure reported must not depend on map iteration
				for _, id2 := range subsetIDs {
					if _, ok := code[id2]; ok {
						known = append(known, id2)
					}
				}
				for _, id2 := range known {
					c2 := code[id2]
					if got := sub.Get(id2); got != c2 {
						fail("subsetter-stable", "after call %d: Get(%d) = %d, it was %d", n+1, id2, got, c2)
						return
					}
				}
				after := sub.List()
				if len(after) != len(before) {
					fail("subsetter-idempotent", "after call %d: repeating Get for known ids grew the list from %v to %v", n+1, before, after)
					return
				}
				// injective, .notdef at zero, Get and List agree
				inv := map[uint16]uint16{}
				for _, id2 := range known {
					c2 := code[id2]
					if other, dup := inv[c2]; dup {
						fail("subsetter-injective", "after call %d: ids %d and %d share code %d", n+1, other, id2, c2)
						return
					}
					inv[c2] = id2
					if int(c2) >= len(after) || after[c2] != id2 {
						fail("subsetter-list", "after call %d: Get(%d) = %d but List() = %v", n+1, id2, c2, after)
						return
					}
					if (id2 == 0) != (c2 == 0) {
						fail("subsetter-notdef", "after call %d: Get(%d) = %d; code 0 is reserved for .notdef (glyph 0)", n+1, id2, c2)
						return
					}
				}
				if after[0] != 0 {
					fail("subsetter-notdef", "after call %d: List() = %v does not start with .notdef", n+1, after)
					return
				}
			}
			r.Validated++
			r.Outcome(fmt.Sprintf("subsetter-ok:%d-distinct-ids", len(code)))
		},
	}
}

// ---------------------------------------------------------------------------------------------
// family: text to paths (no PDF)

type faceVariant struct {
	name       string
	size       float64
	xoff, yoff int32
	italic     float64 // FauxItalic: the glyphs are sheared about the (raised) baseline of the face, as the PDF text matrix does
	features   string  // Font.SetFeatures before the face is made (OpenType features the shaper applies)
}

var faceVariants = []faceVariant{
	{"Face(12pt)", 12, 0, 0, 0, ""},
	{"Face(8pt) with XOffset=37 YOffset=350 font units", 8, 37, 350, 0, ""},
	{"Face(12pt) with FauxItalic=0.3", 12, 0, 0, 0.3, ""},
	{"Face(8pt) with XOffset=37 YOffset=350 font units and FauxItalic=0.3", 8, 37, 350, 0.3, ""},
	{"Face(12pt) of a font with SetFeatures(\"smcp\") (small capitals)", 12, 0, 0, 0, "smcp"},
	{"Face(12pt) of a font with SetFeatures(\"c2sc,onum\")", 12, 0, 0, 0, "c2sc,onum"},
}

func relErr(a, b float64) float64 {
	if a == b {
		return 0
	}
	return math.Abs(a-b) / math.Max(math.Abs(a), math.Abs(b))
}

func familyToPath(name string, strs []string) fw.Family {
	nf, nv := len(fontMenu), len(faceVariants)
	decode := func(i int64) (int, int, string) {
		d := oracle.Digits(i, len(strs), nv, nf)
		return d[2], d[1], strs[d[0]]
	}
	return fw.Family{
		Name: name, N: int64(nf * nv * len(strs)),
		Desc: func(i int64) string {
			fi, vi, s := decode(i)
			return fmt.Sprintf("%s of %s: ToPath(%q), TextWidth(%q), NewTextLine(face, %q, Left)", faceVariants[vi].name, fontMenu[fi].name, s, s, s)
		},
		Check: func(i int64, r *fw.R) {
			fi, vi, s := decode(i)
			src := fontMenu[fi].load()
			v := faceVariants[vi]
			cfont := src.fresh()
			if v.features != "" {
				cfont.SetFeatures(v.features)
			}
			face := cfont.Face(v.size, canvas.Black)
			face.XOffset, face.YOffset = v.xoff, v.yoff
			face.FauxItalic = v.italic
			r.NontrivialIdx()
			r.States++
			glyphs := face.Glyphs(s) // the layout: glyph ids, advances, offsets
			upem := float64(src.fr.Upem)
			f := face.Size / upem
			if relErr(face.Size, v.size*25.4/72) > 1e-12 || relErr(face.MmPerEm, f) > 1e-12 {
				report(r, "face-scale", fmt.Sprintf("Face(%g pt): Size %v mm, MmPerEm %v; a point is 25.4/72 mm and the font has %g units per em", v.size, face.Size, face.MmPerEm, upem))
				return
			}
			_, sum, ok := toPathCheck(r, src, face, v, s, glyphs, "")
			if !ok {
				return
			}
			// widths
			tw := face.TextWidth(s)
			r.Transitions++
			wantW := f * float64(sum)
			if !(relErr(tw, wantW) <= 1e-9) {
				report(r, "textwidth", fmt.Sprintf("TextWidth(%q) = %v mm, the laid-out advances sum to %d units = %v mm", s, tw, sum, wantW))
			}
			t := canvas.NewTextLine(face, s, canvas.Left)
			r.Transitions++
			sw, nspans, first := 0.0, 0, true
			t.WalkSpans(func(sx, sy float64, sp canvas.TextSpan) {
				sw += sp.Width
				nspans++
				if first {
					first = false
					// the baseline starts at the current coordinate (plus the face's offsets)
					if math.Abs(sx-f*float64(v.xoff)) > 1e-9 || math.Abs(sy-f*float64(v.yoff)) > 1e-9 {
						report(r, "textline-origin", fmt.Sprintf("NewTextLine(%q, Left): the first span is at (%v,%v) mm, expected the face offsets (%v,%v)", s, sx, sy, f*float64(v.xoff), f*float64(v.yoff)))
					}
				}
			})
			r.Outcome(fmt.Sprintf("textline-spans=%d", nspans))
			if !(relErr(sw, tw) <= 1e-9) {
				report(r, "span-width", fmt.Sprintf("NewTextLine(%q): the span widths sum to %v mm, TextWidth says %v mm", s, sw, tw))
			}
			r.Validated++
		},
	}
}

// toPathCheck compares FontFace.ToPath(s) with the exact outlines of the laid-out glyphs placed
// at the cumulative advances. It returns the pen position after the last glyph and the sum of
// the horizontal advances (font units); ok is false if the case was abandoned.
func toPathCheck(r *fw.R, src *fontSrc, face *canvas.FontFace, v faceVariant, s string, glyphs []text.Glyph, suffix string) (x, sum int, ok bool) {
	f := face.Size / float64(src.fr.Upem)
	var want []fullSeg
	var wantSp []oracle.Subpath
	x, y := int(v.xoff), int(v.yoff)
	kerned := false
	for _, g := range glyphs {
		segs, err := src.exactOutline(int(g.ID))
		if err != nil {
			r.Outcome("skipped:" + err.Error())
			return 0, 0, false
		}
		// outline point (ox,oy) -> (f(x+gx+ox) + italic*f(gy+oy + y-yoff), f(y+gy+oy)): the shear is about the face's
		// own baseline y = f*yoff, which is what PDF.RenderText's Translate(x,y).Shear(FauxItalic,0) does
		rel := float64(y - int(v.yoff) + int(g.YOffset))
		placeOutline(segs, affine{f, 0, v.italic * f, f, f*float64(x+int(g.XOffset)) + v.italic*f*rel, f * float64(y+int(g.YOffset))}, &want, &wantSp)
		x += int(g.XAdvance)
		y += int(g.YAdvance)
		sum += int(g.XAdvance)
		if a, _ := src.fr.Advance(int(g.ID)); a != int(g.XAdvance) {
			kerned = true
		}
	}
	if kerned {
		r.Outcome("layout:has-adjusted-advance")
	}
	if len([]rune(s)) != len(glyphs) {
		r.Outcome("layout:ligature-or-decomposition")
	}
	p, adv, err := face.ToPath(s)
	r.Transitions++
	if err != nil {
		report(r, "topath-error"+suffix, fmt.Sprintf("ToPath(%q): %v", s, err))
		return 0, 0, false
	}
	var got []fullSeg
	var gotSp []oracle.Subpath
	if err := canvasSegs(p.Data(), affine{1, 0, 0, 1, 0, 0}, &got, &gotSp); err != nil {
		report(r, "topath-data"+suffix, err.Error())
		return 0, 0, false
	}
	tol := 1e-6 * face.Size
	dist, how := outlineDistance(want, got, wantSp, gotSp, tol)
	r.Outcome("topath:" + how)
	r.Max("ToPath distance / (1e-6 size)", dist/tol)
	if !(dist <= tol) {
		report(r, "topath-outline"+suffix, fmt.Sprintf("ToPath(%q) is %.3g mm (%.3g of the size) away from the glyph outlines of the source font placed at the cumulative advances (%s); laid-out glyphs %v; ToPath = %s", s, dist, dist/face.Size, how, glyphs, clipS(p.String(), 300)))
	}
	wantAdv := f * float64(x-int(v.xoff))
	if relErr(adv, f*float64(x)) > 1e-9 && relErr(adv, wantAdv) > 1e-9 {
		report(r, "topath-advance"+suffix, fmt.Sprintf("ToPath(%q) returns the advance %v mm; the laid-out advances sum to %d units = %v mm (%v mm with the face's XOffset)", s, adv, x-int(v.xoff), wantAdv, f*float64(x)))
	} else if v.xoff != 0 {
		if relErr(adv, wantAdv) <= 1e-9 {
			r.Outcome("topath-advance:excludes-XOffset")
		} else {
			r.Outcome("topath-advance:includes-XOffset")
		}
	}
	return x, sum, true
}

// ---------------------------------------------------------------------------------------------
// family: Text.RenderAsPath puts every glyph where the layout says

func familyRenderAsPath(name string, strs []string) fw.Family {
	nf, nk := len(fontMenu), len(kinds)
	decode := func(i int64) (int, int, string) {
		si, c := split(i, nk*nf)
		d := oracle.Digits(c, nk, nf)
		return d[1], d[0], strs[si]
	}
	return fw.Family{
		Name: name, N: int64(nf * nk * len(strs)),
		Desc: func(i int64) string {
			fi, ki, s := decode(i)
			return fmt.Sprintf("%s of %s with s=%q; RenderAsPath(recorder, view, 0)", kinds[ki].name, fontMenu[fi].name, s)
		},
		Check: func(i int64, r *fw.R) {
			fi, ki, s := decode(i)
			src := fontMenu[fi].load()
			k := &kinds[ki]
			t := k.build(k.face(src.fresh()), s)
			dr := record(t, src, ki, s)
			r.NontrivialIdx()
			r.States++
			rec := &recorder{}
			t.RenderAsPath(rec, k.m, 0) // resolution 0: no hinting, no alignment to a pixel raster
			r.Transitions++
			var want, got []fullSeg
			var wantSp, gotSp []oracle.Subpath
			nGlyphs := 0
			for si := range dr.spans {
				sp := &dr.spans[si]
				f := sp.size / float64(sp.upem)
				for gi, g := range sp.glyphs {
					segs, err := src.exactOutline(g.id)
					if err != nil {
						r.Outcome("skipped:" + err.Error())
						return
					}
					ox, oy := sp.glyphOrigin(gi)
					// glyph units -> scale -> rotate with the span -> translate -> view
					c, sn := rot(sp.rotation, 1, 0)
					local := affine{f * c, f * sn, f * (sp.italic*c - sn), f * (sp.italic*sn + c), ox, oy}
					placeOutline(segs, compose(local, affine(dr.m)), &want, &wantSp)
					nGlyphs++
				}
			}
			for _, p := range rec.paths {
				if err := canvasSegs(p.data, p.m, &got, &gotSp); err != nil {
					report(r, "renderaspath-data", err.Error())
					return
				}
			}
			size := kinds[ki].size * 25.4 / 72 * math.Hypot(dr.m[0], dr.m[1])
			tol := 1e-6 * size
			dist, how := outlineDistance(want, got, wantSp, gotSp, tol)
			r.Outcome("renderaspath:" + how)
			if !(dist <= tol) {
				report(r, "renderaspath-outline", fmt.Sprintf("RenderAsPath is %.3g mm (%.3g of the size) away from the glyph outlines placed by the layout (%s); layout: %s", dist, dist/size, how, describeSpans(dr.spans)))
			}
			r.Max("RenderAsPath distance / (1e-6 size)", dist/tol)
			r.Count("glyphs placed", int64(nGlyphs))
			r.Validated++
		},
	}
}

func describeSpans(sps []spanL) string {
	var parts []string
	for i := range sps {
		parts = append(parts, sps[i].String())
	}
	return strings.Join(parts, " | ")
}

var _ = fontread.FmtOutline
