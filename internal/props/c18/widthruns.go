package c18

import (
	"fmt"
	"sort"
	"sync"

	"github.com/tdewolff/canvas"

	"verif/internal/fw"
)

// family: runs of equal advances in the W array. The writer compresses five or more consecutive
// codes of one width into "first last width" and omits runs of the default width; what ends a
// run (a code of another width, of the default width, the end of the array) decides which branch
// is taken. The strings are derived from the source font alone:
//   - "first use" runs (codes of a subsetted font follow the order of first use): the first five
//     characters (by code point, printable ASCII and Latin-1) of every advance class with five or
//     more members, followed by one character of every distinct advance of the font (one of them
//     has the advance of .notdef, the default width, if the font has such a character) or nothing;
//   - "glyph id" runs (codes of a fully embedded font are glyph ids): every maximal run of five
//     or more consecutive glyph ids with equal advance whose glyphs all have a BMP character,
//     alone and followed by the character of the next glyph id.

type runCase struct {
	font int
	s    string
	note string
}

var (
	runOnce  sync.Once
	runCases []runCase
)

func buildRunCases() {
	for fi, f := range fontMenu {
		src := f.load()
		var cand []rune
		for c := rune(0x21); c <= 0x7E; c++ {
			cand = append(cand, c)
		}
		for c := rune(0xA1); c <= 0xFF; c++ {
			if c != 0xAD {
				cand = append(cand, c)
			}
		}
		byAdv := map[int][]rune{}
		var advs []int
		for _, c := range cand {
			g := src.fr.GlyphIndex(c)
			if g == 0 {
				continue
			}
			a, err := src.fr.Advance(g)
			if err != nil {
				continue
			}
			if len(byAdv[a]) == 0 {
				advs = append(advs, a)
			}
			byAdv[a] = append(byAdv[a], c)
		}
		sort.Ints(advs)
		dw, _ := src.fr.Advance(0)
		for _, a := range advs {
			if len(byAdv[a]) < 5 {
				continue
			}
			run := string(byAdv[a][:5])
			runCases = append(runCases, runCase{fi, run, fmt.Sprintf("five characters of advance %d", a)})
			for _, b := range advs {
				note := fmt.Sprintf("five characters of advance %d, then one of advance %d", a, b)
				if b == dw {
					note += " (the advance of .notdef)"
				}
				foll := byAdv[b][0]
				if b == a {
					foll = byAdv[b][len(byAdv[b])-1]
				}
				runCases = append(runCases, runCase{fi, run + string(foll), note})
			}
			runCases = append(runCases, runCase{fi, run + " ", fmt.Sprintf("five characters of advance %d, then a space", a)})
		}
		// many distinct glyphs in one document: in code point order (long ToUnicode ranges) and
		// interleaved (every character its own ToUnicode entry: more than 100 entries)
		var present []rune
		for _, c := range cand {
			if src.fr.GlyphIndex(c) != 0 {
				present = append(present, c)
			}
		}
		runCases = append(runCases, runCase{fi, string(present), fmt.Sprintf("all %d printable ASCII and Latin-1 characters of the font in code point order", len(present))})
		var inter []rune
		for k := 0; k < len(present); k += 2 {
			inter = append(inter, present[k])
		}
		for k := 1; k < len(present); k += 2 {
			inter = append(inter, present[k])
		}
		runCases = append(runCases, runCase{fi, string(inter), fmt.Sprintf("all %d printable ASCII and Latin-1 characters of the font, every second one first", len(present))})
		// runs of consecutive glyph ids
		bmp := func(g int) (rune, bool) {
			for _, r := range src.fr.RunesOf(g) {
				if r < 0x10000 && r != 0xAD && r > 0x20 {
					return r, true
				}
			}
			return 0, false
		}
		for g := 1; g < src.fr.N; {
			a, _ := src.fr.Advance(g)
			h := g
			for h < src.fr.N {
				b, err := src.fr.Advance(h)
				if _, ok := bmp(h); err != nil || b != a || !ok {
					break
				}
				h++
			}
			if h-g >= 5 && len(runCases) < 100000 {
				var rs []rune
				for k := g; k < g+5; k++ {
					r, _ := bmp(k)
					rs = append(rs, r)
				}
				// the last five of the run, so that the glyph after them ends the run
				var last []rune
				for k := h - 5; k < h; k++ {
					r, _ := bmp(k)
					last = append(last, r)
				}
				runCases = append(runCases, runCase{fi, string(last), fmt.Sprintf("glyph ids %d-%d, all of advance %d", h-5, h-1, a)})
				if r, ok := bmp(h); ok && h < src.fr.N {
					b, _ := src.fr.Advance(h)
					runCases = append(runCases, runCase{fi, string(last) + string(r), fmt.Sprintf("glyph ids %d-%d of advance %d, then glyph id %d of advance %d", h-5, h-1, a, h, b)})
				}
				if g != h-5 {
					runCases = append(runCases, runCase{fi, string(rs), fmt.Sprintf("glyph ids %d-%d, all of advance %d", g, g+4, a)})
				}
			}
			if h == g {
				h++
			}
			g = h
		}
	}
}

func familyWidthRuns(maxPerFont int) fw.Family {
	get := func() []runCase {
		runOnce.Do(buildRunCases)
		if maxPerFont <= 0 {
			return runCases
		}
		// quick tier: at most maxPerFont cases per font, spread evenly
		var out []runCase
		for fi := range fontMenu {
			var mine []runCase
			for _, c := range runCases {
				if c.font == fi {
					mine = append(mine, c)
				}
			}
			step := 1
			if len(mine) > maxPerFont {
				step = (len(mine) + maxPerFont - 1) / maxPerFont
			}
			for k := 0; k < len(mine); k += step {
				out = append(out, mine[k])
			}
		}
		return out
	}
	cases := get()
	name := fmt.Sprintf("PDF, runs of equal widths in the W array: %d strings derived from the advance classes and the glyph order of each font x SubsetFonts on/off", len(cases))
	decode := func(i int64) (docSpec, string) {
		c := cases[i/2]
		return docSpec{subset: i%2 == 0, steps: []step{{font: c.font, kind: kindLine, s: c.s}}}, c.note
	}
	return fw.Family{
		Name: name, N: int64(2 * len(cases)),
		Desc: func(i int64) string {
			d, note := decode(i)
			return d.String() + " [" + note + "]"
		},
		Check: func(i int64, r *fw.R) {
			d, _ := decode(i)
			checkDoc(d, map[int]*canvas.Font{}, r, name)
		},
	}
}
