// Package c17: text.Linebreak (Knuth–Plass) against a brute-force reference over all breakings.
package c17

import (
	"fmt"
	"math"
	"os"
	"strings"

	"github.com/tdewolff/canvas/text"

	"verif/internal/fw"
	"verif/internal/oracle"
)

// Params returns the package's tunables in the oracle's form.
func Params() oracle.KPParams {
	return oracle.KPParams{Tolerance: text.Tolerance, Line: text.DemeritsLine, Flagged: text.DemeritsFlagged,
		Fitness: text.DemeritsFitness, Infinity: text.Infinity}
}

// ToText converts oracle items to the package's items through its public constructors.
func ToText(items []oracle.KPItem) []text.Item {
	out := make([]text.Item, len(items))
	for i, it := range items {
		switch it.Kind {
		case oracle.KPBox:
			out[i] = text.Box(it.W)
		case oracle.KPGlue:
			out[i] = text.Glue(it.W, it.Y, it.Z)
		default:
			out[i] = text.Penalty(it.W, it.P, it.Flagged)
		}
	}
	return out
}

// FromText converts the package's items to oracle items (used by C16).
func FromText(items []text.Item) []oracle.KPItem {
	out := make([]oracle.KPItem, len(items))
	for i, it := range items {
		switch it.Type {
		case text.BoxType:
			out[i] = oracle.KPItem{Kind: oracle.KPBox, W: it.Width}
		case text.GlueType:
			out[i] = oracle.KPItem{Kind: oracle.KPGlue, W: it.Width, Y: it.Stretch, Z: it.Shrink}
		default:
			out[i] = oracle.KPItem{Kind: oracle.KPPenalty, W: it.Width, P: it.Penalty, Flagged: it.Flagged}
		}
	}
	return out
}

func box(w float64) oracle.KPItem        { return oracle.KPItem{Kind: oracle.KPBox, W: w} }
func glue(w, y, z float64) oracle.KPItem { return oracle.KPItem{Kind: oracle.KPGlue, W: w, Y: y, Z: z} }
func pen(w, p float64, f bool) oracle.KPItem {
	return oracle.KPItem{Kind: oracle.KPPenalty, W: w, P: p, Flagged: f}
}

// token is one letter of an alphabet: one or more items.
type token []oracle.KPItem

// base alphabet of DESIGN §5 C17, simplest first.
func baseAlphabet() []token {
	inf := text.Infinity
	return []token{
		{box(1)},
		{glue(1, 1, 1)},
		{pen(0, 0, false)},
		{box(2)},
		{glue(1, 1, 0)},
		{pen(1, 50, true)},
		{pen(0, -inf, false)},
		{box(3)},
		{glue(1, 0, 0)},
		{glue(1, 0, 1)},
		{glue(1, 2, 0)},
		{glue(1, 2, 1)},
		{glue(0, 2, 0)},
		{pen(0, inf, false)},
		{pen(0, -50, false)}, // not in DESIGN's alphabet; added so that the negative-penalty branch of the demerits formula is exercised
	}
}

// reduced alphabet for longer paragraphs (more lines: consecutive flagged breaks, fitness jumps).
func reducedAlphabet() []token {
	return []token{
		{box(1)},
		{glue(1, 1, 1)},
		{pen(0, 0, false)},
		{box(2)},
		{pen(1, 50, true)},
		{glue(1, 2, 0)},
		{pen(0, -text.Infinity, false)},
	}
}

// macro alphabet: the item groups text.GlyphsToItems emits (written from reading it; s = 1 is
// the "stretchWidth", the space is 1 wide, the hyphen 1 wide).
func macroAlphabet() []token {
	inf := text.Infinity
	return []token{
		{box(1)},
		{box(2)},
		// Left/Right space
		{glue(0, 1, 0), pen(0, 0, false), glue(1, -1, 0)},
		// Centered space
		{glue(0, 1, 0), pen(0, 0, false), glue(1, -1, 0), box(0), pen(0, inf, false), glue(0, 1, 0)},
		// Left/Right soft hyphen
		{pen(0, inf, false), glue(0, 1, 0), pen(1, 10*text.HyphenPenalty, true), glue(0, -1, 0)},
		// Justified space, Justified soft hyphen, break after '-', CJK break
		{glue(1, 0.5, 1.0/3.0)},
		{pen(1, text.HyphenPenalty, true)},
		{pen(0, text.HyphenPenalty, true)},
		{pen(0, 0, false)},
		// newline (Left/Right/Justified) and Centered newline
		{glue(0, inf, 0), pen(0, -inf, false)},
		{glue(0, 1, 0), pen(0, -inf, false)},
	}
}

func forced() oracle.KPItem { return pen(0, -text.Infinity, false) }

func finishing() []oracle.KPItem {
	return []oracle.KPItem{glue(0, text.Infinity, 0), pen(0, -text.Infinity, false)}
}

// seqCount is the number of token strings of length <= maxLen over k letters.
func seqCount(k, maxLen int) int64 {
	n, p := int64(0), int64(1)
	for l := 0; l <= maxLen; l++ {
		n += p
		p *= int64(k)
	}
	return n
}

// decode maps an index to a token string: ordered by length, then lexicographically (the
// mapping does not depend on maxLen, so quick indices are thorough indices).
func decode(i int64, alpha []token) []oracle.KPItem {
	k := int64(len(alpha))
	l, p := 0, int64(1)
	for i >= p {
		i -= p
		p *= k
		l++
	}
	digits := make([]int, l)
	for j := l - 1; j >= 0; j-- {
		digits[j] = int(i % k)
		i /= k
	}
	var items []oracle.KPItem
	for _, d := range digits {
		items = append(items, alpha[d]...)
	}
	return append(items, finishing()...)
}

// FmtItems renders items readably.
func FmtItems(items []oracle.KPItem) string {
	var sb strings.Builder
	sb.WriteByte('[')
	for i, it := range items {
		if i > 0 {
			sb.WriteString(", ")
		}
		switch it.Kind {
		case oracle.KPBox:
			fmt.Fprintf(&sb, "Box(%g)", it.W)
		case oracle.KPGlue:
			fmt.Fprintf(&sb, "Glue(%g,%g,%g)", it.W, it.Y, it.Z)
		default:
			fmt.Fprintf(&sb, "Penalty(%g,%g,%v)", it.W, it.P, it.Flagged)
		}
	}
	sb.WriteByte(']')
	return sb.String()
}

// features of the INPUT that the suspected root causes need (for triage and known-finding keys).
func features(items []oracle.KPItem, p oracle.KPParams) string {
	var fs []string
	prevLegal := -1
	adj, pw, negY, flag0 := false, false, false, false
	for i, it := range items {
		if it.Kind == oracle.KPBox {
			prevLegal = -1
		}
		if oracle.KPLegal(items, i, p) {
			if prevLegal >= 0 {
				adj = true
			}
			prevLegal = i
			if it.Kind == oracle.KPPenalty && it.W != 0 {
				pw = true
			}
		}
		if it.Kind == oracle.KPGlue && it.Y < 0 {
			negY = true
		}
	}
	if len(items) > 0 && items[0].Flagged {
		flag0 = true
	}
	if pw {
		fs = append(fs, "penalty-with-width")
	}
	if adj {
		fs = append(fs, "legal-breakpoints-without-box-between")
	}
	if negY {
		fs = append(fs, "negative-stretch")
	}
	if flag0 {
		fs = append(fs, "first-item-flagged")
	}
	if len(fs) == 0 {
		return "none"
	}
	return strings.Join(fs, "+")
}

var recorded = map[string]int{}

func near(a, b float64) bool {
	return math.Abs(a-b) <= 1e-9*(1+math.Abs(a)+math.Abs(b))
}

// CheckOne runs Linebreak on items at one width and checks every clause of the statement.
func CheckOne(r *fw.R, items []oracle.KPItem, width float64) {
	p := Params()
	n := len(items)
	viol := func(class, format string, a ...any) {
		// the tally is complete; the recorded list keeps the first few per class and worker so that
		// one root cause cannot crowd the others out of the framework's per-worker cap
		r.Outcome("VIOLATION:" + class)
		if recorded[class] < 12 {
			recorded[class]++
			r.Violate(class, fmt.Sprintf("width=%g: ", width)+fmt.Sprintf(format, a...))
		}
	}
	breaks, ok := text.Linebreak(ToText(items), width, 0)

	// --- structure
	pos := make([]int, len(breaks))
	for j, b := range breaks {
		pos[j] = b.Position
	}
	structural := false
	if len(pos) == 0 {
		viol("no-breakpoints", "empty result")
		return
	}
	for j, b := range pos {
		if b < 0 || b >= n {
			viol("position-out-of-range", "positions %v", pos)
			return
		}
		if j > 0 && pos[j-1] >= b {
			viol("positions-not-increasing", "positions %v", pos)
			structural = true
		}
		if !oracle.KPLegal(items, b, p) {
			viol("illegal-breakpoint", "position %d of %v is not a legal breakpoint", b, pos)
			structural = true
		}
	}
	if pos[len(pos)-1] != n-1 {
		viol("does-not-end-at-final-forced-break", "positions %v, final forced break at %d", pos, n-1)
		structural = true
	}
	has := map[int]bool{}
	for _, b := range pos {
		has[b] = true
	}
	for i := range items {
		if oracle.KPForced(items, i, p) && !has[i] {
			viol("forced-break-missing", "positions %v lack the forced break at %d", pos, i)
			structural = true
		}
	}
	if structural {
		r.Outcome("structurally-broken")
		return
	}

	// --- brute force
	all := oracle.KPEnumerate(items, width, p)
	ev := oracle.KPEvaluate(items, pos, width, p)
	if all.Boundary {
		r.Outcome("ratio-within-1e-9-of-a-limit(not-equal)")
	}

	// --- reported widths and ratios are those of the returned lines
	widthBad, ratioBad := false, false
	for j, b := range breaks {
		ln := ev.Lines[j]
		if !near(b.Width, ln.L) && !widthBad {
			widthBad = true
			cls := "width-mismatch"
			if !ok {
				cls = "width-mismatch-on-overflow"
			}
			viol(cls, "line %d of breaks %v: reported Width=%g, recomputed natural width=%g (ok=%v)", j, pos, b.Width, ln.L, ok)
		}
		inRange := ln.Ratio >= -1 && ln.Ratio <= p.Tolerance
		good := false
		if inRange {
			good = near(b.Ratio, ln.Ratio)
		} else {
			// convention read off the code: a line that cannot be set within [-1,Tolerance] is reported
			// with ratio 0 (set at its natural width); the true ratio is accepted as well
			good = b.Ratio == 0 || near(b.Ratio, ln.Ratio)
		}
		if !good && !ratioBad {
			ratioBad = true
			viol("ratio-mismatch", "line %d of breaks %v: reported Ratio=%g, recomputed=%g (L=%g Y=%g Z=%g)", j, pos, b.Ratio, ln.Ratio, ln.L, ln.Y, ln.Z)
		}
	}

	// --- optimality / relaxation / overflow
	switch {
	case all.Feasible > 0:
		r.Count("cases_with_feasible_breaking", 1)
		switch {
		case !ev.Feasible:
			viol("not-feasible-though-feasible-exists", "returned %v (ratios %s, ok=%v) but %v keeps every ratio in [-1,%g] (demerits %g); %d of %d breakings feasible",
				pos, ratios(ev), ok, all.BestBreaks, p.Tolerance, all.MinDemerits, all.Feasible, all.Breakings)
		case ev.Demerits-all.MinDemerits > 1e-6*math.Max(1, math.Abs(all.MinDemerits)): // demerits can be negative (negative penalties)
			viol("not-optimal", "returned %v has demerits %.9g (ratios %s) but %v has %.9g", pos, ev.Demerits, ratios(ev), all.BestBreaks, all.MinDemerits)
		default:
			if all.Feasible > 1 {
				r.Outcome("feasible:optimal-among-several")
			} else {
				r.Outcome("feasible:the-only-one")
			}
		}
		if !ok && ev.Feasible {
			viol("overflow-reported-though-feasible", "ok=false for the feasible breaking %v", pos)
		}
		r.Max("lines", float64(len(pos)))
	case all.Fitting > 0:
		r.Count("cases_needing_relaxed_stretch", 1)
		switch {
		case !ev.Fits:
			viol("overfull-though-fitting-breaking-exists", "returned %v (ratios %s, ok=%v) but every line of %v can be set without overflow (max ratio %g)",
				pos, ratios(ev), ok, all.BestFitting, all.MinMaxRatio)
		case ev.MaxRatio > all.MinMaxRatio*(1+1e-9)+1e-12:
			viol("relaxed-more-than-needed", "returned %v stretches to ratio %g but %v needs only %g", pos, ev.MaxRatio, all.BestFitting, all.MinMaxRatio)
		default:
			if math.IsInf(all.MinMaxRatio, 1) {
				r.Outcome("relaxed:unstretchable-short-line-unavoidable")
			} else {
				r.Outcome("relaxed:minimal-finite-stretch")
			}
		}
		if !ok && ev.Fits {
			viol("overflow-reported-though-all-lines-fit", "ok=false but no line of %v needs more than its shrink (ratios %s)", pos, ratios(ev))
		}
	default:
		r.Count("cases_where_every_breaking_overflows", 1)
		if ok {
			// not demanded by C17's wording ("only if"), but C16 relies on it
			viol("overflow-not-reported", "every breaking has a line that cannot be shrunk to fit, returned %v (ratios %s) with ok=true", pos, ratios(ev))
		} else {
			r.Outcome("overflow:reported")
		}
	}
	if ok && !ev.Fits && all.Fitting > 0 {
		viol("overflow-not-reported", "returned %v has an overfull line (ratios %s) but ok=true", pos, ratios(ev))
	}
	r.Count("breakings_enumerated", all.Breakings)
	r.Max("breakings_per_case", float64(all.Breakings))
}

func ratios(ev oracle.KPEval) string {
	s := make([]string, len(ev.Lines))
	for i, l := range ev.Lines {
		s[i] = fmt.Sprintf("%.4g", l.Ratio)
	}
	return "[" + strings.Join(s, " ") + "]"
}

var widths = []float64{2, 3, 4, 5, 6, 7, 8, 9}

func seqFamily(name string, alpha []token, maxLen int) fw.Family {
	return fw.Family{
		Name: name, N: seqCount(len(alpha), maxLen),
		Check: func(i int64, r *fw.R) {
			items := decode(i, alpha)
			p := Params()
			nb, nl := 0, 0
			for k, it := range items {
				if it.Kind == oracle.KPBox {
					nb++
				}
				if oracle.KPLegal(items, k, p) {
					nl++
				}
			}
			if nb > 0 && nl >= 2 {
				r.NontrivialIdx()
			}
			for _, w := range widths {
				CheckOne(r, items, w)
			}
			r.Count("sequence_x_width", int64(len(widths)))
		},
		Desc: func(i int64) string {
			items := decode(i, alpha)
			return FmtItems(items) + " features=" + features(items, Params())
		},
	}
}

// unterminated sequences are outside the statement (it presupposes a final forced break); they
// are only run for "returns without panic".
func unterminatedFamily(alpha []token, maxLen int) fw.Family {
	strip := func(i int64) []oracle.KPItem {
		items := decode(i, alpha)
		return items[:len(items)-2]
	}
	return fw.Family{
		Name: "no-final-forced-break(totality-only)", N: seqCount(len(alpha), maxLen),
		Check: func(i int64, r *fw.R) {
			items := strip(i)
			if n := len(items); n > 0 && items[n-1].Kind == oracle.KPPenalty && items[n-1].P <= -text.Infinity {
				r.Outcome("totality:ends-in-forced-break(skipped)")
				return
			}
			for _, w := range widths {
				func() {
					defer func() {
						if e := recover(); e != nil {
							r.Outcome("VIOLATION:panic-without-final-forced-break")
							if recorded["panic"] < 12 {
								recorded["panic"]++
								r.Violate("panic-without-final-forced-break", fmt.Sprintf("width=%g: %v", w, e))
							}
							return
						}
						r.Outcome("totality:returned")
					}()
					text.Linebreak(ToText(items), w, 0)
				}()
			}
		},
		Desc: func(i int64) string { return FmtItems(strip(i)) + " (no finishing glue/penalty)" },
	}
}

// tunables: the statement quantifies over the package's configuration too ("with the package's
// tunables"); large flagged/fitness demerits make those terms decide small cases.
type tunables struct{ tol, line, flagged, fitness float64 }

func withTunables(f fw.Family, t tunables) fw.Family {
	var old tunables
	f.Name += fmt.Sprintf(" [Tolerance=%g DemeritsLine=%g DemeritsFlagged=%g DemeritsFitness=%g]", t.tol, t.line, t.flagged, t.fitness)
	f.Setup = func() {
		old = tunables{text.Tolerance, text.DemeritsLine, text.DemeritsFlagged, text.DemeritsFitness}
		text.Tolerance, text.DemeritsLine, text.DemeritsFlagged, text.DemeritsFitness = t.tol, t.line, t.flagged, t.fitness
	}
	f.Teardown = func() {
		text.Tolerance, text.DemeritsLine, text.DemeritsFlagged, text.DemeritsFitness = old.tol, old.line, old.flagged, old.fitness
	}
	return f
}

// word paragraphs: n words separated by one kind of glue, words optionally hyphenated, an
// optional forced break; longer paragraphs (up to 7 lines) than the free alphabets reach.
func wordFamily(maxWords int) fw.Family {
	words := []token{
		{box(1)},
		{box(2)},
		{box(3)},
		{box(1), pen(1, 50, true), box(1)},
		{box(2), pen(0, 50, true), box(1)},
	}
	glues := []oracle.KPItem{glue(1, 1, 1), glue(1, 2, 1), glue(1, 1, 0), glue(2, 1, 1)}
	nw := seqCount(len(words), maxWords)
	build := func(i int64) []oracle.KPItem {
		g := glues[i%int64(len(glues))]
		i /= int64(len(glues))
		// decode the word string
		k := int64(len(words))
		l, p := 0, int64(1)
		for i >= p {
			i -= p
			p *= k
			l++
		}
		digits := make([]int, l)
		for j := l - 1; j >= 0; j-- {
			digits[j] = int(i % k)
			i /= k
		}
		var items []oracle.KPItem
		for j, d := range digits {
			if j > 0 {
				items = append(items, g)
			}
			items = append(items, words[d]...)
		}
		return append(items, finishing()...)
	}
	return fw.Family{
		Name: "word-paragraphs+finish", N: nw * int64(len(glues)),
		Check: func(i int64, r *fw.R) {
			items := build(i)
			r.NontrivialIdx()
			for _, w := range widths {
				CheckOne(r, items, w)
			}
			r.Count("sequence_x_width", int64(len(widths)))
		},
		Desc: func(i int64) string {
			items := build(i)
			return FmtItems(items) + " features=" + features(items, Params())
		},
	}
}

var gapGlues = []oracle.KPItem{glue(1, 1, 1), glue(1, 2, 0), glue(2, 2, 0), glue(2, 1, 1)}

// gapItems decodes index i of gapFamily(maxWords).
func gapItems(i int64, maxWords int) []oracle.KPItem {
	glues := gapGlues
	count := func(n int) int64 {
		c := int64(1)
		for k := 0; k < n; k++ {
			c *= 3
		}
		for k := 0; k < n-1; k++ {
			c *= int64(len(glues))
		}
		return c
	}
	n := 1
	for i >= count(n) {
		i -= count(n)
		n++
	}
	var items []oracle.KPItem
	for j := 0; j < n; j++ {
		if j > 0 {
			items = append(items, glues[i%int64(len(glues))])
			i /= int64(len(glues))
		}
		items = append(items, box(float64(1+i%3)))
		i /= 3
	}
	return append(items, finishing()...)
}

// gapFamily: exactly-n-or-fewer words of width 1..3 with an independently chosen glue in every gap.
func gapFamily(maxWords int) fw.Family {
	glues := gapGlues
	// index = sum over shorter lengths + (words base 3, gaps base 4)
	count := func(n int) int64 { // paragraphs of exactly n words
		c := int64(1)
		for i := 0; i < n; i++ {
			c *= 3
		}
		for i := 0; i < n-1; i++ {
			c *= int64(len(glues))
		}
		return c
	}
	total := int64(0)
	for n := 1; n <= maxWords; n++ {
		total += count(n)
	}
	build := func(i int64) []oracle.KPItem { return gapItems(i, maxWords) }
	return fw.Family{
		Name: "words-with-independent-gaps+finish", N: total,
		Check: func(i int64, r *fw.R) {
			items := build(i)
			r.NontrivialIdx()
			for _, w := range widths {
				CheckOne(r, items, w)
			}
			r.Count("sequence_x_width", int64(len(widths)))
		},
		Desc: func(i int64) string {
			items := build(i)
			return FmtItems(items) + " features=" + features(items, Params())
		},
	}
}

// hyphenFamily: <= maxParts word parts of width 1..3; every gap is a space (two kinds of glue) or
// a flagged hyphenation point; the paragraph ends in a flagged forced break (a hyphen at the end
// of the last line), an unflagged bare forced break, or the usual finish. Lines that end at a
// flagged break followed by a flagged final break are the rule here, not the exception.
func hyphenFamily(maxParts int) fw.Family {
	gaps := []oracle.KPItem{glue(1, 1, 1), glue(1, 2, 0), pen(1, 50, true)}
	ends := [][]oracle.KPItem{{pen(1, -text.Infinity, true)}, {forced()}, finishing()}
	count := func(n int) int64 {
		c := int64(len(ends))
		for k := 0; k < n; k++ {
			c *= 3
		}
		for k := 0; k < n-1; k++ {
			c *= int64(len(gaps))
		}
		return c
	}
	total := int64(0)
	for n := 2; n <= maxParts; n++ {
		total += count(n)
	}
	build := func(i int64) []oracle.KPItem {
		n := 2
		for i >= count(n) {
			i -= count(n)
			n++
		}
		end := ends[i%int64(len(ends))]
		i /= int64(len(ends))
		var items []oracle.KPItem
		for j := 0; j < n; j++ {
			if j > 0 {
				items = append(items, gaps[i%int64(len(gaps))])
				i /= int64(len(gaps))
			}
			items = append(items, box(float64(1+i%3)))
			i /= 3
		}
		return append(items, end...)
	}
	return fw.Family{
		Name: fmt.Sprintf("<=%d word parts with spaces or flagged hyphenation points between them, ending in a flagged forced break / a bare forced break / the finish", maxParts), N: total,
		Check: func(i int64, r *fw.R) {
			items := build(i)
			r.NontrivialIdx()
			for _, w := range widths {
				CheckOne(r, items, w)
			}
			r.Count("sequence_x_width", int64(len(widths)))
		},
		Desc: func(i int64) string {
			items := build(i)
			return FmtItems(items) + " features=" + features(items, Params())
		},
	}
}

// twoParagraphs: a paragraph of <= n1 words with independent gaps that ends in a forced break
// WITHOUT the infinitely stretchable finishing glue (what GlyphsToItems emits for centred text),
// followed by a second paragraph of <= n2 words with the usual finish. The line that ends at the
// inner forced break can then fall into any fitness class, and several routes with the same
// number of lines reach the forced break.
func twoParagraphs(n1, n2 int, bare bool) fw.Family {
	a, b := gapFamily(n1), gapFamily(n2)
	na, nb := a.N, b.N
	build := func(i int64) []oracle.KPItem {
		first := gapItems(i%na, n1)
		second := gapItems(i/na, n2)
		items := append([]oracle.KPItem{}, first[:len(first)-2]...) // drop Glue(0,inf,0) Penalty(-inf)
		items = append(items, forced())
		if bare {
			items = append(items, second[:len(second)-2]...)
			return append(items, forced())
		}
		return append(items, second...)
	}
	name := fmt.Sprintf("two paragraphs (<=%d and <=%d words with independent gaps), the first ending in a bare forced break", n1, n2)
	if bare {
		name = fmt.Sprintf("two paragraphs (<=%d and <=%d words with independent gaps), both ending in a bare forced break", n1, n2)
	}
	return fw.Family{
		Name: name, N: na * nb,
		Check: func(i int64, r *fw.R) {
			items := build(i)
			r.NontrivialIdx()
			for _, w := range widths {
				CheckOne(r, items, w)
			}
			r.Count("sequence_x_width", int64(len(widths)))
		},
		Desc: func(i int64) string {
			items := build(i)
			return FmtItems(items) + " features=" + features(items, Params())
		},
	}
}

func families(tier string) []fw.Family {
	n, m, d, g := 5, 3, 6, 6
	if tier == "thorough" {
		n, m, d, g = 6, 5, 8, 7
	}
	_ = g
	fs := []fw.Family{
		seqFamily("base-alphabet+finish", baseAlphabet(), n),
		seqFamily("alignment-macros+finish", macroAlphabet(), m),
		seqFamily("reduced-alphabet-long+finish", reducedAlphabet(), d),
		withTunables(seqFamily("reduced-alphabet-long+finish", reducedAlphabet(), d-1), tunables{1, 1, 10000, 10000}),
		withTunables(seqFamily("reduced-alphabet-long+finish", reducedAlphabet(), d-1), tunables{3, 10, 3000, 300}),
		wordFamily(d - 1),
		withTunables(wordFamily(d-2), tunables{1, 1, 10000, 10000}),
		gapFamily(6),
		twoParagraphs(4, 2, true),
		withTunables(wordFamily(6), tunables{1, 1, 10000, 10000}),
		withTunables(wordFamily(6), tunables{3, 10, 3000, 300}),
		withTunables(twoParagraphs(5, 2, true), tunables{1, 1, 10000, 10000}),
		withTunables(twoParagraphs(4, 2, false), tunables{3, 10, 3000, 300}),
	}
	if tier == "thorough" {
		fs = append(fs, withTunables(gapFamily(g), tunables{0.5, 10, 100, 100}),
			twoParagraphs(5, 3, true),
			withTunables(twoParagraphs(5, 3, true), tunables{1, 1, 10000, 10000}),
			withTunables(twoParagraphs(5, 3, false), tunables{1, 1, 10000, 10000}),
			withTunables(twoParagraphs(5, 3, true), tunables{3, 10, 3000, 300}))
	}
	// a forced break may carry the flag too (a hyphen at the end of a paragraph line): two flagged breaks in a row
	flaggedForced := append(reducedAlphabet(), token{pen(1, -text.Infinity, true)})
	fs = append(fs,
		seqFamily("reduced-alphabet + flagged forced break, long+finish", flaggedForced, d-1),
		withTunables(seqFamily("reduced-alphabet + flagged forced break, long+finish", flaggedForced, d-2), tunables{1, 1, 10000, 10000}),
		hyphenFamily(5),
		withTunables(hyphenFamily(5), tunables{3, 10, 3000, 300}),
		unterminatedFamily(baseAlphabet(), 4),
	)
	// development aid: C17_ONLY=<substring> restricts the run to the matching families
	if only := os.Getenv("C17_ONLY"); only != "" {
		var sel []fw.Family
		for _, f := range fs {
			if strings.Contains(f.Name, only) {
				sel = append(sel, f)
			}
		}
		return sel
	}
	return fs
}

func hasFeature(f string) func(v *fw.Violation) bool {
	return func(v *fw.Violation) bool {
		k := strings.LastIndex(v.Case, " features=")
		if k < 0 {
			return false
		}
		for _, x := range strings.Split(v.Case[k+len(" features="):], "+") {
			if x == f {
				return true
			}
		}
		return false
	}
}

// Prop is the C17 check.
func Prop() *fw.Property {
	return &fw.Property{
		ID:    "C17",
		Level: "exploration",
		Rule: "every item sequence of length <= 5 (quick) / 6 (thorough) over {Box 1/2/3, Glue(1;y in 0,1,2;z in 0,1), Glue(0,2,0), Penalty 0, Penalty(w=1,50,flagged), Penalty -inf, Penalty +inf, Penalty -50} " +
			"every sequence of length <= 6 / 8 over the reduced alphabet {Box 1/2, Glue(1,1,1), Glue(1,2,0), Penalty 0, Penalty(w=1,50,flagged), Penalty -inf}, " +
			"and every sequence of <= 3 / 5 of the item groups GlyphsToItems emits (spaces, soft hyphens, newlines per alignment), each followed by Glue(0,inf,0)+Penalty(-inf), and two-paragraph sequences (<= 5 + <= 2 / 3 words of width 1..3 with an independently chosen glue in every gap) whose paragraphs end in a forced break without the finishing glue (what centred text produces), x widths 2..9, looseness 0; " +
			"text.Linebreak compared with the brute force over ALL subsets of legal breakpoints that contain every forced break (paper's discard rule, ratio, badness, demerits; package tunables); " +
			"one evaluation = one sequence at all 8 widths; non-trivial = at least one box and at least two legal breakpoints",
		Assumptions: []string{
			"widths/stretch/shrink are small integers (plus 1/2, 1/3 in the macro family), so all ratios are exact; real font metrics are covered only through C16",
			"looseness 0 only; sequences of more than 6 items (+2 finishing) are outside the bound",
			"conventions not fixed by the statement are the paper's: glue after a break is discarded up to the next box; nothing is discarded at the paragraph start; unstretchable short lines have ratio +inf; start of paragraph is fitness class 1 and unflagged; glue breaks have penalty 0",
			"read off the code: a returned line whose ratio is outside [-1,Tolerance] may be reported with Ratio 0; 'infinity' is the package's finite text.Infinity",
			"class overflow-not-reported is the converse of the statement's 'only if' and is included because C16 depends on it",
		},
		Families: families,
		KnownPredicates: map[string]func(*fw.Violation) bool{
			"penalty-with-width":                    hasFeature("penalty-with-width"),
			"legal-breakpoints-without-box-between": hasFeature("legal-breakpoints-without-box-between"),
			"negative-stretch":                      hasFeature("negative-stretch"),
		},
	}
}
