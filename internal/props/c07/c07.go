// Package c07: Path.Transform maps the point set segment by segment; Matrix operations obey
// their documented algebra.
package c07

import (
	"fmt"
	"math"
	"strconv"
	"strings"

	"github.com/tdewolff/canvas"

	"verif/internal/cv"
	"verif/internal/fw"
	"verif/internal/oracle"
	"verif/internal/props/curvefam"
)

func viol(r *fw.R, sps []oracle.Subpath, class, detail string) {
	if sps != nil && curvefam.ArcChordEqualsRx(sps) {
		detail = "[" + class + "] " + detail
		class = curvefam.ArcShortcutClass
	}
	r.Count("violations:"+class, 1)
	r.Violate(class, detail)
}

// ---- matrix menu ----------------------------------------------------------------------

type gen struct {
	name string
	cm   func(canvas.Matrix) canvas.Matrix // the public builder call (appends on the right)
	am   oracle.Aff                        // what the doc comment says the call adds
}

var gens = []gen{
	{"Rotate(30)", func(m canvas.Matrix) canvas.Matrix { return m.Rotate(30) }, oracle.AffRotate(30)},
	{"Rotate(90)", func(m canvas.Matrix) canvas.Matrix { return m.Rotate(90) }, oracle.AffRotate(90)},
	{"Rotate(180)", func(m canvas.Matrix) canvas.Matrix { return m.Rotate(180) }, oracle.AffRotate(180)},
	{"Rotate(-45)", func(m canvas.Matrix) canvas.Matrix { return m.Rotate(-45) }, oracle.AffRotate(-45)},
	{"Scale(2,1)", func(m canvas.Matrix) canvas.Matrix { return m.Scale(2, 1) }, oracle.AffScale(2, 1)},
	{"Scale(1,-1)", func(m canvas.Matrix) canvas.Matrix { return m.Scale(1, -1) }, oracle.AffScale(1, -1)},
	{"Scale(-1,1)", func(m canvas.Matrix) canvas.Matrix { return m.Scale(-1, 1) }, oracle.AffScale(-1, 1)},
	{"Scale(-1,-1)", func(m canvas.Matrix) canvas.Matrix { return m.Scale(-1, -1) }, oracle.AffScale(-1, -1)},
	{"Scale(0.5,3)", func(m canvas.Matrix) canvas.Matrix { return m.Scale(0.5, 3) }, oracle.AffScale(0.5, 3)},
	{"Scale(0.001,1)", func(m canvas.Matrix) canvas.Matrix { return m.Scale(1e-3, 1) }, oracle.AffScale(1e-3, 1)},
	{"Shear(0.5,0)", func(m canvas.Matrix) canvas.Matrix { return m.Shear(0.5, 0) }, oracle.AffShear(0.5, 0)},
	{"Shear(0,-2)", func(m canvas.Matrix) canvas.Matrix { return m.Shear(0, -2) }, oracle.AffShear(0, -2)},
	{"Translate(3,-2)", func(m canvas.Matrix) canvas.Matrix { return m.Translate(3, -2) }, oracle.AffTranslate(3, -2)},
	{"ReflectX()", func(m canvas.Matrix) canvas.Matrix { return m.ReflectX() }, oracle.AffScale(-1, 1)},
	{"ReflectY()", func(m canvas.Matrix) canvas.Matrix { return m.ReflectY() }, oracle.AffScale(1, -1)},
	// reflections in the diagonals: orientation reversing with an exactly zero diagonal
	{"Mul([0 1 0; 1 0 0])", func(m canvas.Matrix) canvas.Matrix { return m.Mul(canvas.Matrix{{0, 1, 0}, {1, 0, 0}}) }, oracle.Aff{A: 0, B: 1, C: 1, D: 0}},
	{"Mul([0 -1 0; -1 0 0])", func(m canvas.Matrix) canvas.Matrix { return m.Mul(canvas.Matrix{{0, -1, 0}, {-1, 0, 0}}) }, oracle.Aff{A: 0, B: -1, C: -1, D: 0}},
	// the About variants: the same map with the point (x,y) as its fixed point
	{"RotateAbout(30,2,-1)", func(m canvas.Matrix) canvas.Matrix { return m.RotateAbout(30, 2, -1) }, about(oracle.AffRotate(30), 2, -1)},
	{"ScaleAbout(2,0.5,3,1)", func(m canvas.Matrix) canvas.Matrix { return m.ScaleAbout(2, 0.5, 3, 1) }, about(oracle.AffScale(2, 0.5), 3, 1)},
	{"ShearAbout(0.5,-2,3,1)", func(m canvas.Matrix) canvas.Matrix { return m.ShearAbout(0.5, -2, 3, 1) }, about(oracle.AffShear(0.5, -2), 3, 1)},
	{"ShearAbout(0,0.5,1,2)", func(m canvas.Matrix) canvas.Matrix { return m.ShearAbout(0, 0.5, 1, 2) }, about(oracle.AffShear(0, 0.5), 1, 2)},
	{"ReflectXAbout(2)", func(m canvas.Matrix) canvas.Matrix { return m.ReflectXAbout(2) }, about(oracle.AffScale(-1, 1), 2, 0)},
	{"ReflectYAbout(-1.5)", func(m canvas.Matrix) canvas.Matrix { return m.ReflectYAbout(-1.5) }, about(oracle.AffScale(1, -1), 0, -1.5)},
}

// about is the map m with (x,y) as its fixed point: translate (x,y) to the origin, apply m, translate back.
func about(m oracle.Aff, x, y float64) oracle.Aff {
	return oracle.AffTranslate(x, y).After(m).After(oracle.AffTranslate(-x, -y))
}

// nWords(k) = number of generator words of length <= k.
func nWords(k int) int64 {
	n, p := int64(0), int64(1)
	for i := 0; i <= k; i++ {
		n += p
		p *= int64(len(gens))
	}
	return n
}

// word decodes index i into a generator word, shortest first.
func word(i int64) []int {
	g := int64(len(gens))
	l, p := 0, int64(1)
	for i >= p {
		i -= p
		p *= g
		l++
	}
	w := make([]int, l)
	for k := l - 1; k >= 0; k-- {
		w[k] = int(i % g)
		i /= g
	}
	return w
}

// build applies the word through the public builder calls and, independently, through the
// oracle ("concatenated transformations are evaluated right-to-left": each call multiplies on the right).
func build(w []int) (canvas.Matrix, oracle.Aff, string) {
	cm, am := canvas.Identity, oracle.AffIdentity
	name := "Identity"
	for _, k := range w {
		cm = gens[k].cm(cm)
		am = am.After(gens[k].am)
		name += "." + gens[k].name
	}
	return cm, am, name
}

func toAff(m canvas.Matrix) oracle.Aff {
	return oracle.Aff{A: m[0][0], B: m[0][1], E: m[0][2], C: m[1][0], D: m[1][1], F: m[1][2]}
}

// ---- path transform -------------------------------------------------------------------

func segMenu() ([]oracle.Seg, []string) {
	P := func(x, y float64) oracle.Pt { return oracle.Pt{X: x, Y: y} }
	var segs []oracle.Seg
	var names []string
	add := func(n string, s oracle.Seg) { segs = append(segs, s); names = append(names, n) }
	add("line", oracle.MkLine(P(0, 0), P(3, 1)))
	add("line-vertical", oracle.MkLine(P(1, 2), P(1, -1)))
	m := curvefam.Menu12(P(0.5, -1))
	for i := 1; i <= 6; i++ {
		add(curvefam.Menu12Names[i], m[i])
	}
	add("quad-s", oracle.MkQuad(P(0, 0), P(-1, 2), P(2, 2)))
	for _, rr := range [][2]float64{{2, 1}, {1.5, 1.5}, {3, 0.5}} {
		for _, rot := range []float64{0, 30, 90, 120} {
			for f := 0; f < 4; f++ {
				add(fmt.Sprintf("arc(%g,%g,rot%g,large=%v,sweep=%v)", rr[0], rr[1], rot, f&1 != 0, f&2 != 0),
					oracle.MkArc(P(0.5, -1), rr[0], rr[1], rot, f&1 != 0, f&2 != 0, P(2.5, 0)))
			}
		}
	}
	for f := 0; f < 2; f++ {
		add(fmt.Sprintf("half-circle(sweep=%v)", f == 1), oracle.MkArc(P(0.5, -1), 1, 1, 0, false, f == 1, P(4.5, -1)))
		add(fmt.Sprintf("half-ellipse-rot30(sweep=%v)", f == 1), oracle.MkArc(P(0.5, -1), 1, 0.5, 30, true, f == 1, P(3.5, 1)))
	}
	return segs, names
}

func imageScale(a oracle.Aff, sps []oracle.Subpath) float64 {
	m := 0.0
	up := func(p oracle.Pt) {
		q := a.Apply(p)
		m = math.Max(m, math.Max(math.Abs(q.X), math.Abs(q.Y)))
	}
	for _, sp := range sps {
		up(sp.Start)
		for _, s := range sp.Segs {
			up(s.P1)
			switch s.Kind {
			case oracle.CmdQuad:
				up(s.C1)
			case oracle.CmdCube:
				up(s.C1)
				up(s.C2)
			case oracle.CmdArc:
				c, _, _, rx, _, _ := oracle.ArcGeom(s)
				for _, d := range []oracle.Pt{{X: rx, Y: rx}, {X: -rx, Y: rx}, {X: rx, Y: -rx}, {X: -rx, Y: -rx}} {
					up(c.Add(d))
				}
			}
		}
	}
	return math.Max(m, 1e-300)
}

func invAff(a oracle.Aff) oracle.Aff {
	d := a.Det()
	return oracle.Aff{A: a.D / d, B: -a.B / d, C: -a.C / d, D: a.A / d,
		E: -(a.D*a.E - a.B*a.F) / d, F: -(-a.C*a.E + a.A*a.F) / d}
}

// checkTransform compares p.Transform(cm) with the image under am, segment by segment.
func checkTransform(r *fw.R, sps []oracle.Subpath, cm canvas.Matrix, am oracle.Aff) {
	checkTransformBy(r, sps, func(p *canvas.Path) *canvas.Path { return p.Transform(cm) }, am)
}

// checkTransformBy compares the path that apply returns with the image under am.
func checkTransformBy(r *fw.R, sps []oracle.Subpath, apply func(*canvas.Path) *canvas.Path, am oracle.Aff) {
	data := oracle.PathData(sps)
	outData := apply(cv.Path(data)).Data()
	out, err := oracle.Decode(outData)
	if err != nil {
		viol(r, sps, "transform-malformed-output", err.Error()+": "+fmt.Sprint(outData))
		return
	}
	if len(out) != len(sps) {
		viol(r, sps, "transform-structure", fmt.Sprintf("%d subpaths in, %d out", len(sps), len(out)))
		return
	}
	tol := 1e-7 * imageScale(am, sps)
	flip := am.Det() < 0
	inv := invAff(am)
	for i := range sps {
		if len(out[i].Segs) != len(sps[i].Segs) || out[i].Closed != sps[i].Closed {
			viol(r, sps, "transform-structure", fmt.Sprintf("subpath %d: %d segments (closed=%v) in, %d (closed=%v) out", i, len(sps[i].Segs), sps[i].Closed, len(out[i].Segs), out[i].Closed))
			return
		}
		if d := out[i].Start.Dist(am.Apply(sps[i].Start)); !(d <= tol) {
			viol(r, sps, "transform-point", fmt.Sprintf("start of subpath %d is %v, expected %v", i, out[i].Start, am.Apply(sps[i].Start)))
			return
		}
		for k, s := range sps[i].Segs {
			o := out[i].Segs[k]
			if o.Kind != s.Kind {
				viol(r, sps, "transform-structure", fmt.Sprintf("segment %d of subpath %d changed its command from %v to %v", k, i, s.Kind, o.Kind))
				return
			}
			if d := o.P1.Dist(am.Apply(s.P1)); !(d <= tol) {
				viol(r, sps, "transform-point", fmt.Sprintf("end of segment %d is %v, expected %v", k, o.P1, am.Apply(s.P1)))
				return
			}
			switch s.Kind {
			case oracle.CmdQuad, oracle.CmdCube:
				w := 0.0
				for j := 0; j <= 16; j++ {
					f := float64(j) / 16
					w = math.Max(w, o.At(f).Dist(am.Apply(s.At(f))))
				}
				r.Max("transform_bezier_diff/tol", w/tol)
				if !(w <= tol) {
					viol(r, sps, "transform-bezier", fmt.Sprintf("segment %d differs from the image of the input by %.3g; output %s", k, w, oracle.Fmt(outData)))
					return
				}
			case oracle.CmdArc:
				if !checkArc(r, sps, s, o, am, inv, flip, tol, outData) {
					return
				}
			}
		}
	}
}

func checkArc(r *fw.R, sps []oracle.Subpath, s, o oracle.Seg, am, inv oracle.Aff, flip bool, tol float64, outData []float64) bool {
	_, _, _, _, _, st := oracle.ArcGeom(s)
	if st != oracle.ArcOK && st != oracle.ArcHalf {
		r.Count("arc_input_ill_conditioned_skipped", 1)
		return true
	}
	if !(o.Rx > 0 && o.Ry > 0 && o.Rx >= o.Ry*(1-1e-12) && o.Phi >= 0 && o.Phi < math.Pi) {
		viol(r, sps, "transform-arc-not-canonical", fmt.Sprintf("rx=%g ry=%g phi=%g; output %s", o.Rx, o.Ry, o.Phi, oracle.Fmt(outData)))
		return false
	}
	// lambda (half chord length in the ellipse's own metric) is an affine invariant
	lam := oracle.ArcLambda(s.P0, s.Rx, s.Ry, s.Phi, s.P1)
	lam2 := oracle.ArcLambda(o.P0, o.Rx, o.Ry, o.Phi, o.P1)
	r.Max("transform_arc_lambda_drift", math.Abs(lam2-lam))
	eps := 1e-6
	if st == oracle.ArcHalf {
		// lambda of the output is x^2/rx^2 + y^2/ry^2 in the output's own frame: it is only
		// computable to about (rx/ry) ulps, so the bound grows with the eccentricity of the output
		eps = 1e-9 * math.Max(1, o.Rx/o.Ry/1000)
	}
	if !(math.Abs(lam2-lam) <= eps) {
		viol(r, sps, "transform-arc-radii", fmt.Sprintf("radii do not fit the chord as before: lambda %.12g -> %.12g; output %s", lam, lam2, oracle.Fmt(outData)))
		return false
	}
	if o.Sweep != (s.Sweep != flip) {
		viol(r, sps, "transform-arc-sweep", fmt.Sprintf("sweep %v -> %v with det %.3g; output %s", s.Sweep, o.Sweep, am.Det(), oracle.Fmt(outData)))
		return false
	}
	if st == oracle.ArcOK && o.Large != s.Large {
		viol(r, sps, "transform-arc-large-flag", fmt.Sprintf("large %v -> %v; output %s", s.Large, o.Large, oracle.Fmt(outData)))
		return false
	}
	if st == oracle.ArcHalf {
		k := math.Sqrt(lam2) // the image of a half ellipse is one: read it as such
		o.Rx, o.Ry = o.Rx*k, o.Ry*k
	}
	const n = 24
	prev := 0.0
	w := 0.0
	for j := 0; j <= n; j++ {
		q := am.Apply(oracle.SegAt(s, float64(j)/n))
		t, d := oracle.NearestParamMulti(o, q, 64)
		w = math.Max(w, d)
		if !(d <= tol) {
			viol(r, sps, "transform-arc-geometry", fmt.Sprintf("image of input arc point #%d/%d (%.9g,%.9g) is %.3g away from the output arc; output %s", j, n, q.X, q.Y, d, oracle.Fmt(outData)))
			return false
		}
		if t < prev-1e-6 {
			viol(r, sps, "transform-arc-direction", fmt.Sprintf("image of input arc point #%d lies at parameter %.6g after %.6g; output %s", j, t, prev, oracle.Fmt(outData)))
			return false
		}
		prev = t
	}
	for j := 0; j <= n; j += 2 {
		q := inv.Apply(oracle.SegAt(o, float64(j)/n))
		_, d := oracle.NearestParamMulti(s, q, 64)
		d *= math.Sqrt(math.Abs(am.Det())) // rough rescaling into image units
		if !(d <= tol*cond(am)) {
			viol(r, sps, "transform-arc-geometry", fmt.Sprintf("output arc point #%d/%d is not the image of an input arc point (preimage %.3g away); output %s", j, n, d, oracle.Fmt(outData)))
			return false
		}
	}
	r.Max("transform_arc_diff/tol", w/tol)
	return true
}

// cond is the condition number of the linear part (ratio of singular values).
func cond(a oracle.Aff) float64 {
	e, f, g, h := (a.A+a.D)/2, (a.A-a.D)/2, (a.C+a.B)/2, (a.C-a.B)/2
	q, rr := math.Hypot(e, h), math.Hypot(f, g)
	lo := math.Abs(q - rr)
	if lo == 0 {
		return math.Inf(1)
	}
	return (q + rr) / lo
}

func matrixClass(a oracle.Aff) string {
	c := ""
	if a.Det() < 0 {
		c = "reflecting"
	} else {
		c = "orientation-preserving"
	}
	k := cond(a)
	switch {
	case k < 1+1e-9:
		c += ",conformal"
	case k < 100:
		c += ",anisotropic"
	default:
		c += ",strongly-anisotropic"
	}
	return c
}

func transformFamily(name string, paths func() ([][]oracle.Subpath, []string), depth int) fw.Family {
	ps, names := paths()
	nw := nWords(depth)
	return fw.Family{
		Name: name, N: int64(len(ps)) * nw,
		Check: func(i int64, r *fw.R) {
			sps := ps[i/nw]
			cm, am, _ := build(word(i % nw))
			if cond(am) > 1e4 {
				r.Outcome("skipped:condition-number>1e4")
				return
			}
			checkTransform(r, sps, cm, am)
			r.Outcome(matrixClass(am))
			if i%nw != 0 {
				r.NontrivialIdx()
			}
		},
		Desc: func(i int64) string {
			_, _, mn := build(word(i % nw))
			return fmt.Sprintf("%s [%s] transformed by %s", curvefam.Desc(ps[i/nw]), names[i/nw], mn)
		},
	}
}

// Path.Translate and Path.Scale are documented as the transformation by the corresponding matrix.
type convenience struct {
	name  string
	apply func(*canvas.Path) *canvas.Path
	am    oracle.Aff
}

var conveniences = func() []convenience {
	var out []convenience
	for _, v := range [][2]float64{{2, 1}, {-1, 1}, {1, -1}, {-1, -1}, {-2, -3}, {0.5, 3}, {3, 0.5}, {-0.5, 2}} {
		v := v
		out = append(out, convenience{fmt.Sprintf("Scale(%g,%g)", v[0], v[1]), func(p *canvas.Path) *canvas.Path { return p.Scale(v[0], v[1]) }, oracle.AffScale(v[0], v[1])})
	}
	// uniform scales whose determinant is far below any absolute epsilon (a change of units), through
	// Transform: the matrix is perfectly conditioned
	for _, f := range []float64{1e-5, 1e-6, 1e6} {
		f := f
		out = append(out, convenience{fmt.Sprintf("Transform(Identity.Scale(%g,%g))", f, f), func(p *canvas.Path) *canvas.Path { return p.Transform(canvas.Identity.Scale(f, f)) }, oracle.AffScale(f, f)})
	}
	for _, v := range [][2]float64{{3, -2}, {0, 0}, {-1.5, 7}} {
		v := v
		out = append(out, convenience{fmt.Sprintf("Translate(%g,%g)", v[0], v[1]), func(p *canvas.Path) *canvas.Path { return p.Translate(v[0], v[1]) }, oracle.AffTranslate(v[0], v[1])})
	}
	return out
}()

func convenienceFamily() fw.Family {
	ps, names := singleSegPaths()
	aps, anames := arcPairPaths()
	ps, names = append(ps, aps...), append(names, anames...)
	// closed shapes of arcs without rotation
	P := func(x, y float64) oracle.Pt { return oracle.Pt{X: x, Y: y} }
	ps = append(ps, []oracle.Subpath{oracle.Chain(true, oracle.MkArc(P(0, 0), 10, 10, 0, false, true, P(10, 10)), oracle.MkLine(P(10, 10), P(0, 10)))})
	names = append(names, "quarter circle + line, closed")
	ps = append(ps, []oracle.Subpath{oracle.Chain(true, oracle.MkArc(P(4, 0), 4, 2, 0, false, true, P(-4, 0)), oracle.MkArc(P(-4, 0), 4, 2, 0, false, true, P(4, 0)))})
	names = append(names, "ellipse of two arcs")
	n := int64(len(conveniences))
	return fw.Family{Name: "Path.Scale / Path.Translate x segment menu, arc pairs and untilted arc shapes", N: int64(len(ps)) * n,
		Check: func(i int64, r *fw.R) {
			c := conveniences[i%n]
			checkTransformBy(r, ps[i/n], c.apply, c.am)
			r.NontrivialIdx()
			r.Outcome("convenience:" + strings.SplitN(c.name, "(", 2)[0])
		},
		Desc: func(i int64) string {
			return fmt.Sprintf("%s [%s] .%s", curvefam.Desc(ps[i/n]), names[i/n], conveniences[i%n].name)
		}}
}

func singleSegPaths() ([][]oracle.Subpath, []string) {
	segs, names := segMenu()
	var ps [][]oracle.Subpath
	for _, s := range segs {
		ps = append(ps, curvefam.One(s))
	}
	return ps, names
}

func twoSegPaths() ([][]oracle.Subpath, []string) {
	var ps [][]oracle.Subpath
	var names []string
	for c := 0; c < 2; c++ {
		for a := 0; a < 12; a++ {
			for b := 0; b < 12; b++ {
				sa := curvefam.Menu12(oracle.Pt{X: 0.5, Y: -1})[a]
				sb := curvefam.Menu12(sa.P1)[b]
				ps = append(ps, []oracle.Subpath{oracle.Chain(c == 1, sa, sb), oracle.Chain(false, oracle.MkLine(oracle.Pt{X: 7, Y: 7}, oracle.Pt{X: 8, Y: 6}))})
				names = append(names, fmt.Sprintf("%s+%s closed=%v + line subpath", curvefam.Menu12Names[a], curvefam.Menu12Names[b], c == 1))
			}
		}
	}
	aps, anames := arcPairPaths()
	ps, names = append(ps, aps...), append(names, anames...)
	return ps, names
}

// arcPairPaths: two arcs with the same radii and another axis rotation (also with a line between).
func arcPairPaths() ([][]oracle.Subpath, []string) {
	var ps [][]oracle.Subpath
	var names []string
	P := func(x, y float64) oracle.Pt { return oracle.Pt{X: x, Y: y} }
	for _, rots := range [][2]float64{{0, 60}, {30, 120}, {60, 0}} {
		for f := 0; f < 2; f++ {
			a1 := oracle.MkArc(P(0, 0), 5, 2, rots[0], false, f == 1, P(6, 1.5))
			a2 := oracle.MkArc(P(6, 1.5), 5, 2, rots[1], false, f == 1, P(7.5, 7))
			ps = append(ps, []oracle.Subpath{oracle.Chain(false, a1, a2)})
			names = append(names, fmt.Sprintf("arc(5,2,rot%g)+arc(5,2,rot%g) sweep=%v", rots[0], rots[1], f == 1))
			l := oracle.MkLine(P(6, 1.5), P(7, 1.5))
			a3 := oracle.MkArc(P(7, 1.5), 5, 2, rots[1], false, f == 1, P(8.5, 7))
			ps = append(ps, []oracle.Subpath{oracle.Chain(false, a1, l, a3)})
			names = append(names, fmt.Sprintf("arc(5,2,rot%g)+line+arc(5,2,rot%g) sweep=%v", rots[0], rots[1], f == 1))
		}
	}
	return ps, names
}

// scaledArcPaths: the arcs of the segment menu at coordinate scales 0.001, 100 and 1000 (the
// coefficients of the conic of an arc go with 1/r^2: radii of a few hundred make them vanish
// against an absolute epsilon).
func scaledArcPaths() ([][]oracle.Subpath, []string) {
	var ps [][]oracle.Subpath
	var names []string
	P := func(x, y float64) oracle.Pt { return oracle.Pt{X: x, Y: y} }
	for _, f := range []float64{0.001, 100, 1000} {
		for _, rr := range [][2]float64{{2, 1}, {1.5, 1.5}, {3, 0.5}, {4, 3}} {
			for _, rot := range []float64{0, 30, 120} {
				for fl := 0; fl < 4; fl += 3 {
					ps = append(ps, curvefam.One(oracle.MkArc(P(0.5*f, -1*f), rr[0]*f, rr[1]*f, rot, fl&1 != 0, fl&2 != 0, P(2.5*f, 0))))
					names = append(names, fmt.Sprintf("arc(%g,%g,rot%g,large=%v,sweep=%v) x%g", rr[0], rr[1], rot, fl&1 != 0, fl&2 != 0, f))
				}
			}
		}
	}
	return ps, names
}

// ---- matrix laws ----------------------------------------------------------------------

func near(a, b oracle.Aff, rel float64) (float64, bool) {
	d := a.MaxAbsDiff(b)
	return d, d <= rel*math.Max(1, math.Max(a.Norm(), b.Norm()))
}

var lattice = oracle.Lattice(3)

// parseSVGTransform reads an SVG transform list (translate, rotate, scale, matrix) as defined by
// SVG 1.1 section 7.6: the list is a product, the rightmost transform is applied first.
func parseSVGTransform(s string) (oracle.Aff, error) {
	m := oracle.AffIdentity
	s = strings.TrimSpace(s)
	for s != "" {
		op := strings.IndexByte(s, '(')
		cl := strings.IndexByte(s, ')')
		if op < 0 || cl < op {
			return m, fmt.Errorf("bad transform list %q", s)
		}
		name := strings.TrimSpace(s[:op])
		fields := strings.FieldsFunc(s[op+1:cl], func(r rune) bool { return r == ',' || r == ' ' })
		var v []float64
		for _, f := range fields {
			x, err := strconv.ParseFloat(f, 64)
			if err != nil {
				return m, fmt.Errorf("bad number %q", f)
			}
			v = append(v, x)
		}
		var t oracle.Aff
		switch {
		case name == "translate" && len(v) == 2:
			t = oracle.AffTranslate(v[0], v[1])
		case name == "translate" && len(v) == 1:
			t = oracle.AffTranslate(v[0], 0)
		case name == "scale" && len(v) == 2:
			t = oracle.AffScale(v[0], v[1])
		case name == "scale" && len(v) == 1:
			t = oracle.AffScale(v[0], v[0])
		case name == "rotate" && len(v) == 1:
			t = oracle.AffRotate(v[0])
		case name == "matrix" && len(v) == 6:
			t = oracle.Aff{A: v[0], C: v[1], B: v[2], D: v[3], E: v[4], F: v[5]}
		default:
			return m, fmt.Errorf("unsupported transform %q with %d arguments", name, len(v))
		}
		m = m.After(t)
		s = strings.TrimLeft(s[cl+1:], " ,")
	}
	return m, nil
}

func singleLaws(r *fw.R, cm canvas.Matrix, am oracle.Aff) {
	// builder calls compose as documented
	if d, ok := near(toAff(cm), am, 1e-12); !ok {
		viol(r, nil, "matrix-builder-composition", fmt.Sprintf("built %v, documented composition gives %+v (diff %.3g)", cm, am, d))
	}
	// Dot applies
	for _, p := range lattice {
		q := cm.Dot(canvas.Point{X: p.X - 1, Y: p.Y - 1})
		e := am.Apply(oracle.Pt{X: p.X - 1, Y: p.Y - 1})
		if !(math.Hypot(q.X-e.X, q.Y-e.Y) <= 1e-12*math.Max(1, am.Norm())) {
			viol(r, nil, "matrix-dot", fmt.Sprintf("Dot(%v)=%v expected %v", p, q, e))
			break
		}
	}
	// Det
	if d := math.Abs(cm.Det() - am.Det()); !(d <= 1e-12*math.Max(1, math.Abs(am.Det()))) {
		viol(r, nil, "matrix-det", fmt.Sprintf("Det=%g expected %g", cm.Det(), am.Det()))
	}
	// the classification predicates, from the singular values of the linear part (computed here from
	// the oracle's matrix): a translation has the identity as linear part, a rigid map has both
	// singular values 1, a similarity has equal singular values; matrices within 1e-6 of a border
	// of a class are not judged
	{
		e := am.A*am.A + am.C*am.C
		g := am.B*am.B + am.D*am.D
		f := am.A*am.B + am.C*am.D
		mid, rad := (e+g)/2, math.Hypot((e-g)/2, f)
		s1, s2 := math.Sqrt(mid+rad), math.Sqrt(math.Max(0, mid-rad))
		scale := math.Max(1, s1)
		clear := func(v float64) bool { return math.Abs(v) > 1e-6*scale }
		isTr := math.Abs(am.A-1)+math.Abs(am.D-1)+math.Abs(am.B)+math.Abs(am.C) <= 1e-12
		clearTr := isTr || clear(math.Abs(am.A-1)+math.Abs(am.D-1)+math.Abs(am.B)+math.Abs(am.C))
		isSim := math.Abs(s1-s2) <= 1e-12*scale
		clearSim := isSim || clear(s1-s2)
		isRig := isSim && math.Abs(s1-1) <= 1e-12
		clearRig := isRig || clear(s1-s2) || clear(s1-1)
		if clearTr && cm.IsTranslation() != isTr {
			viol(r, nil, "matrix-is-translation", fmt.Sprintf("IsTranslation()=%v for %v", cm.IsTranslation(), cm))
		}
		if clearSim && cm.IsSimilarity() != isSim {
			viol(r, nil, "matrix-is-similarity", fmt.Sprintf("IsSimilarity()=%v for %v with singular values %.12g, %.12g", cm.IsSimilarity(), cm, s1, s2))
		}
		if clearRig && cm.IsRigid() != isRig {
			viol(r, nil, "matrix-is-rigid", fmt.Sprintf("IsRigid()=%v for %v with singular values %.12g, %.12g", cm.IsRigid(), cm, s1, s2))
		}
	}
	// Inv inverts (both sides)
	inv := cm.Inv()
	k := cond(am)
	for _, prod := range []canvas.Matrix{inv.Mul(cm), cm.Mul(inv)} {
		if d, ok := near(toAff(prod), oracle.AffIdentity, 1e-12*k*math.Max(1, am.Norm())); !ok {
			viol(r, nil, "matrix-inv", fmt.Sprintf("Inv()*m or m*Inv() = %v is not the identity (diff %.3g)", prod, d))
			break
		}
	}
	// T transposes the linear part; the translation of the 2x3 matrix stays (assumption, see Assumptions)
	t := cm.T()
	if t[0][0] != cm[0][0] || t[1][1] != cm[1][1] || t[0][1] != cm[1][0] || t[1][0] != cm[0][1] {
		viol(r, nil, "matrix-transpose", fmt.Sprintf("T() of %v is %v", cm, t))
	} else if t[0][2] != cm[0][2] || t[1][2] != cm[1][2] {
		viol(r, nil, "matrix-transpose-translation", fmt.Sprintf("T() of %v changed the translation column: %v", cm, t))
	}
	if t.T() != cm {
		viol(r, nil, "matrix-transpose", fmt.Sprintf("T().T() of %v is %v", cm, t.T()))
	}
	// Decompose: documented as (tx, ty, phi, sx, sy, theta) with m = Translate(tx,ty).Rotate(phi).Scale(sx,sy).Rotate(theta)
	tx, ty, r3, sx, sy, r6 := cm.Decompose()
	doc := oracle.AffTranslate(tx, ty).After(oracle.AffRotate(r3)).After(oracle.AffScale(sx, sy)).After(oracle.AffRotate(r6))
	if _, ok := near(doc, am, 1e-9); ok {
		r.Outcome("decompose:documented-reading-recomposes")
	} else {
		r.Outcome("decompose:does-not-recompose")
		viol(r, nil, "decompose-does-not-recompose", fmt.Sprintf("m=%v: Decompose()=(%g,%g,%g,%g,%g,%g); the documented Translate(tx,ty).Rotate(3rd).Scale(sx,sy).Rotate(6th) gives %+v", cm, tx, ty, r3, sx, sy, r6, doc))
	}
	// ToSVG(h): SVG is y-down; canvas point (x,y) on a canvas of height h is SVG point (x,h-y) and
	// content coordinates are flipped (x,-y): the SVG transform is F_h * m * F_0.
	for _, h := range []float64{0, 10} {
		want := oracle.Aff{A: 1, D: -1, F: h}.After(am).After(oracle.AffScale(1, -1))
		str := cm.ToSVG(h)
		got, err := parseSVGTransform(str)
		if err != nil {
			viol(r, nil, "tosvg-unparsable", fmt.Sprintf("m=%v ToSVG(%g)=%q: %v", cm, h, str, err))
			continue
		}
		form := "list"
		if strings.HasPrefix(str, "matrix") {
			form = "matrix"
		} else if str == "" {
			form = "empty"
		}
		if d, ok := near(got, want, 1e-6); !ok {
			cls := "tosvg-wrong-transformation"
			if am.E == 0 && am.F == 0 && h != 0 {
				if _, ok2 := near(got, oracle.AffTranslate(0, -h).After(want), 1e-6); ok2 {
					cls = "tosvg-zero-translation-ignores-height"
				}
			}
			viol(r, nil, cls, fmt.Sprintf("m=%v ToSVG(%g)=%q means %+v, expected flip_h*m*flip_0 = %+v (diff %.3g)", cm, h, str, got, want, d))
			r.Outcome("tosvg:" + form + "-form:wrong")
		} else {
			r.Outcome("tosvg:" + form + "-form:ok")
			r.Max("tosvg_diff", d)
		}
	}
	// Rect.Transform = bounds of the four images
	rc := canvas.Rect{X0: -1, Y0: 0.5, X1: 2, Y1: 3}
	got := rc.Transform(cm)
	lo := oracle.Pt{X: math.Inf(1), Y: math.Inf(1)}
	hi := oracle.Pt{X: math.Inf(-1), Y: math.Inf(-1)}
	for _, c := range []oracle.Pt{{X: -1, Y: 0.5}, {X: 2, Y: 0.5}, {X: 2, Y: 3}, {X: -1, Y: 3}} {
		q := am.Apply(c)
		lo = oracle.Pt{X: math.Min(lo.X, q.X), Y: math.Min(lo.Y, q.Y)}
		hi = oracle.Pt{X: math.Max(hi.X, q.X), Y: math.Max(hi.Y, q.Y)}
	}
	if d := math.Max(math.Max(math.Abs(got.X0-lo.X), math.Abs(got.Y0-lo.Y)), math.Max(math.Abs(got.X1-hi.X), math.Abs(got.Y1-hi.Y))); !(d <= 1e-12*math.Max(1, am.Norm())*4) {
		viol(r, nil, "rect-transform", fmt.Sprintf("Rect.Transform(%v)=%v expected %v-%v", cm, got, lo, hi))
	}
}

func pairLaws(r *fw.R, ca, cb canvas.Matrix, aa, ab oracle.Aff) {
	prod := ca.Mul(cb)
	want := aa.After(ab) // Mul composes right-to-left: (a.Mul(b)).Dot(p) = a.Dot(b.Dot(p))
	if d, ok := near(toAff(prod), want, 1e-12); !ok {
		viol(r, nil, "matrix-mul", fmt.Sprintf("a=%v b=%v a.Mul(b)=%v expected %+v (diff %.3g)", ca, cb, prod, want, d))
	}
	for _, p := range lattice {
		cp := canvas.Point{X: p.X - 1, Y: p.Y - 1}
		x, y := prod.Dot(cp), ca.Dot(cb.Dot(cp))
		if !(math.Hypot(x.X-y.X, x.Y-y.Y) <= 1e-12*math.Max(1, want.Norm())*4) {
			viol(r, nil, "matrix-mul-order", fmt.Sprintf("a=%v b=%v: a.Mul(b).Dot(%v)=%v but a.Dot(b.Dot(p))=%v", ca, cb, cp, x, y))
			break
		}
	}
	if d := math.Abs(prod.Det() - ca.Det()*cb.Det()); !(d <= 1e-12*math.Max(1, math.Abs(want.Det()))) {
		viol(r, nil, "matrix-det-multiplicative", fmt.Sprintf("det(ab)=%g det(a)det(b)=%g", prod.Det(), ca.Det()*cb.Det()))
	}
	if aa.MaxAbsDiff(ab) > 1e-9 && want.MaxAbsDiff(ab.After(aa)) > 1e-9 {
		r.Outcome("mul:non-commuting-pair")
	} else {
		r.Outcome("mul:commuting-pair")
	}
}

func lawsFamily(depth int) fw.Family {
	nw := nWords(depth)
	return fw.Family{
		Name: fmt.Sprintf("matrix-laws(all ordered pairs of words of length <= %d over %d generators)", depth, len(gens)), N: nw * nw,
		Check: func(i int64, r *fw.R) {
			ca, aa, _ := build(word(i / nw))
			cb, ab, _ := build(word(i % nw))
			if i%nw == 0 {
				singleLaws(r, ca, aa)
			}
			pairLaws(r, ca, cb, aa, ab)
			r.NontrivialIdx()
		},
		Desc: func(i int64) string {
			_, _, na := build(word(i / nw))
			_, _, nb := build(word(i % nw))
			return "a=" + na + " b=" + nb
		},
	}
}

func families(tier string) []fw.Family {
	fs := []fw.Family{
		transformFamily("segment-menu x matrix words <= 2", singleSegPaths, 2),
		transformFamily("arcs of equal radii and different rotation in one path x matrix words <= 2", arcPairPaths, 2),
		convenienceFamily(),
		lawsFamily(2),
		transformFamily("arcs at coordinate scales 0.001, 100, 1000 x matrix words <= 1", scaledArcPaths, 1),
	}
	if tier == "thorough" {
		fs = append(fs,
			transformFamily("two-segment paths (menu12^2, open/closed, + line subpath; arcs of equal radii and different rotation) x matrix words <= 2", twoSegPaths, 2),
			transformFamily("segment-menu x matrix words <= 3", singleSegPaths, 3),
		)
	}
	return fs
}

// Prop is the C07 check.
func Prop() *fw.Property {
	return &fw.Property{
		ID:    "C07",
		Level: "exploration",
		Rule: "every segment of a 65-segment menu (lines, quadratics, cubics incl. cusp/loop/inflection, arcs with 3 radius pairs x rotations {0,30,90,120} x 4 flag pairs, half ellipses) x every word of length <= 2 over 15 generator calls (rotations, scalings incl. reflections and 1e-3, shears, translation, ReflectX/Y) = 241 invertible matrices built through the public builder calls; " +
			"output compared segment by segment with the image of the input under the oracle's own composition (1e-7*scale; arcs: canonical radii/phi, affine-invariant lambda, sweep flips iff det<0, large kept, image points on the output arc in order and vice versa); " +
			"matrix laws on all ordered pairs: Mul right-to-left, Dot, Det, Inv, T, Decompose (documented recomposition), ToSVG (own transform-list parser, h in {0,10}), Rect.Transform; non-trivial = non-identity matrix",
		Assumptions: []string{
			"T() is read as: transpose of the 2x2 linear part, translation column unchanged (the doc comment only says 'matrix transpose')",
			"ToSVG(h) is read as flip_h * m * flip_0 (canvas y-up point (x,y) <-> SVG point (x,h-y), content flipped about its own origin), which is what the matrix(...) form and the translate(tx,h-ty) of the list form encode; printed with 8 decimals, compared at 1e-6",
			"the image of a half ellipse (radii exactly spanning the chord) is read as a half ellipse if its lambda is within 1e-9 of 1",
			"matrix words whose linear part has a condition number above 1e4 (two or three Scale(0.001,1) in a row) are skipped for Path.Transform and counted; the matrix laws still run on them",
		},
		KnownPredicates: map[string]func(*fw.Violation) bool{
			// the matrix has no translation (the detail prints the input matrix as "m=(a b; c d) + (tx,ty)")
			"zero-translation": func(v *fw.Violation) bool { return strings.Contains(v.Detail, ") + (0,0) ToSVG(") },
			// the matrix word contains the 1000:1 anisotropic scale
			"anisotropic-scale-1000": func(v *fw.Violation) bool { return strings.Contains(v.Case, "Scale(0.001,1)") },
		},
		Families: families,
	}
}
