// Package sched is a cooperative scheduler for systematic concurrency testing: harness threads
// run one at a time; every hooked operation calls Point (a scheduling point) or Choose (a data
// choice, e.g. which pooled object Get returns). An Explorer enumerates all choice sequences
// within a preemption bound and a deviation bound by depth-first search over replayed prefixes.
package sched

import (
	"fmt"
	"runtime/debug"
	"sync"
)

// ChoiceKind distinguishes scheduling decisions from data choices.
type ChoiceKind uint8

const (
	KindSched ChoiceKind = iota
	KindData
)

// Choice is one recorded decision of an execution.
type Choice struct {
	Kind    ChoiceKind
	N       int    // number of options
	Picked  int    // option taken
	Label   string // operation label of the point at which the decision was taken
	Running bool   // KindSched: the previously running thread was still enabled (option 0)
}

type thread struct {
	id     int
	resume chan struct{}
	done   bool
	label  string // label of the point it is parked at
}

// Run is one controlled execution.
type Run struct {
	mu         sync.Mutex
	threads    []*thread
	cur        *thread
	yield      chan *thread // thread -> scheduler: parked at a point or finished
	prefix     []int
	Choices    []Choice
	Err        error // replay divergence or deadlock
	Panic      any
	PanicStack string
}

var active *Run // the run in progress (nil when not exploring); accessed only by the running thread

// Active reports whether a controlled execution is in progress.
func Active() bool { return active != nil }

// Point is a scheduling point: the calling harness thread parks and the scheduler decides who
// runs next. Outside a controlled execution it is a no-op.
func Point(label string) {
	r := active
	if r == nil {
		return
	}
	t := r.cur
	if t == nil {
		return
	}
	t.label = label
	r.yield <- t
	<-t.resume
}

// Choose asks the explorer for a data choice among n options (0 = default). Outside a
// controlled execution it returns 0.
func Choose(n int, label string) int {
	r := active
	if r == nil || n <= 1 {
		return 0
	}
	return r.pick(KindData, n, label, false)
}

func (r *Run) pick(kind ChoiceKind, n int, label string, running bool) int {
	i := len(r.Choices)
	p := 0
	if i < len(r.prefix) {
		p = r.prefix[i]
		if p >= n {
			if r.Err == nil {
				r.Err = fmt.Errorf("replay divergence at choice %d (%s): option %d of %d", i, label, p, n)
			}
			p = 0
		}
	}
	r.Choices = append(r.Choices, Choice{Kind: kind, N: n, Picked: p, Label: label, Running: running})
	return p
}

// Execute runs the bodies as harness threads under the scheduler, following prefix and taking
// default choices (option 0) afterwards. It returns the run with its recorded choices.
func Execute(prefix []int, bodies []func()) *Run {
	r := &Run{yield: make(chan *thread), prefix: prefix}
	for i := range bodies {
		r.threads = append(r.threads, &thread{id: i, resume: make(chan struct{})})
	}
	active = r
	defer func() { active = nil }()
	for i, body := range bodies {
		t := r.threads[i]
		body := body
		go func() {
			<-t.resume
			defer func() {
				if e := recover(); e != nil {
					r.Panic = e
					r.PanicStack = string(debug.Stack())
				}
				t.done = true
				r.yield <- t
			}()
			body()
		}()
	}
	var last *thread
	for {
		// enabled threads in canonical order: the last running one first (if still enabled),
		// then ascending ids
		var enabled []*thread
		running := last != nil && !last.done
		if running {
			enabled = append(enabled, last)
		}
		for _, t := range r.threads {
			if !t.done && t != last {
				enabled = append(enabled, t)
			}
		}
		if len(enabled) == 0 {
			break
		}
		k := 0
		if len(enabled) > 1 {
			lbl := "start"
			if last != nil {
				lbl = last.label
			}
			k = r.pick(KindSched, len(enabled), lbl, running)
		}
		t := enabled[k]
		r.cur = t
		t.resume <- struct{}{}
		last = <-r.yield
		r.cur = nil
		if r.Panic != nil {
			// let the remaining threads run to completion without further choices so that no
			// goroutine is leaked: they are resumed in order
			for _, o := range r.threads {
				for !o.done {
					r.cur = o
					o.resume <- struct{}{}
					<-r.yield
				}
			}
			break
		}
	}
	return r
}

// Explorer enumerates executions by DFS over choice prefixes.
type Explorer struct {
	PreemptionBound int
	DeviationBound  int
	MaxExecutions   int64
	Executions      int64
	Capped          bool
	// Check is called after every complete execution; returning false stops the search.
	Check func(r *Run) bool
}

func costs(cs []Choice, upto int) (pre, dev int) {
	for _, c := range cs[:upto] {
		if c.Picked == 0 {
			continue
		}
		if c.Kind == KindSched {
			if c.Running {
				pre++
			}
		} else {
			dev++
		}
	}
	return
}

// Explore runs the DFS from the empty prefix. mk must return fresh bodies for every execution
// (fresh inputs, reset shared state).
func (e *Explorer) Explore(mk func() []func()) {
	e.explore(nil, mk)
}

func (e *Explorer) explore(prefix []int, mk func() []func()) bool {
	if e.MaxExecutions > 0 && e.Executions >= e.MaxExecutions {
		e.Capped = true
		return false
	}
	r := Execute(prefix, mk())
	e.Executions++
	if !e.Check(r) {
		return false
	}
	for i := len(prefix); i < len(r.Choices); i++ {
		c := r.Choices[i]
		pre, dev := costs(r.Choices, i)
		for alt := 1; alt < c.N; alt++ {
			p, d := pre, dev
			if c.Kind == KindSched {
				if c.Running {
					p++
				}
			} else {
				d++
			}
			if p > e.PreemptionBound || d > e.DeviationBound {
				continue
			}
			np := make([]int, i+1)
			for j := 0; j < i; j++ {
				np[j] = r.Choices[j].Picked
			}
			np[i] = alt
			if !e.explore(np, mk) {
				return false
			}
		}
	}
	return true
}
