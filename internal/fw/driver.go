package fw

import (
	"crypto/sha1"
	"encoding/hex"
	"encoding/json"
	"fmt"
	"os"
	"os/exec"
	"path/filepath"
	"regexp"
	"sort"
	"strconv"
	"strings"
	"sync"
	"time"
)

// Root is the /verif directory (where evidence/, replays/ and known_findings.json live).
func Root() string {
	if d := os.Getenv("VERIF_ROOT"); d != "" {
		return d
	}
	// the scripts cd into the checkout they belong to (which may be a snapshot of /verif)
	if wd, err := os.Getwd(); err == nil {
		if _, err := os.Stat(filepath.Join(wd, "known_findings.json")); err == nil {
			return wd
		}
	}
	return "/verif"
}

// Finding is one entry of known_findings.json.
type Finding struct {
	Status   string `json:"status"` // known | fixed
	Property string `json:"property"`
	ID       string `json:"id"`
	Line     string `json:"line"`
	What     string `json:"what"`
	Match    struct {
		Predicate string   `json:"predicate,omitempty"`
		Cases     []string `json:"cases,omitempty"`
		Class     string   `json:"class,omitempty"`
		Family    string   `json:"family,omitempty"`
		CaseRegex string   `json:"case_regex,omitempty"`
		// ClassRegex narrows an entry to the failed clauses it documents (a predicate on the input
		// alone would otherwise also swallow other kinds of failure on the same inputs)
		ClassRegex string `json:"class_regex,omitempty"`
		// Listed narrows an entry to the very violations the unchanged tree shows: the pair
		// (case, class) must be in known_cases/<finding id>.json (hashed keys, written once by
		// scripts/list_known.sh from complete quick and thorough runs on the pinned tree)
		Listed bool `json:"listed,omitempty"`
	} `json:"match"`
	listed map[string]bool
}

// ListKey is the key of a violation in the lists of known cases.
func ListKey(v *Violation) string {
	h := sha1.Sum([]byte(v.Case + "|" + v.Class))
	return hex.EncodeToString(h[:8])
}

var listDumpDir = os.Getenv("VERIF_LIST_DUMP")
var listDumps = map[string]*os.File{}

func (f *Finding) inList(v *Violation) bool {
	k := ListKey(v)
	if listDumpDir != "" {
		// list-building mode (scripts/list_known.sh): everything the other criteria accept is taken and written out
		fh := listDumps[f.ID]
		if fh == nil {
			fh, _ = os.OpenFile(filepath.Join(listDumpDir, fmt.Sprintf("%s.%d.txt", f.ID, os.Getpid())), os.O_CREATE|os.O_WRONLY|os.O_APPEND, 0o644)
			listDumps[f.ID] = fh
		}
		if fh != nil {
			fmt.Fprintln(fh, k)
		}
		return true
	}
	if f.listed == nil {
		b, err := os.ReadFile(filepath.Join(Root(), "known_cases", f.ID+".json"))
		var l struct {
			Keys []string `json:"keys"`
		}
		if err == nil {
			err = json.Unmarshal(b, &l)
		}
		if err != nil {
			fmt.Fprintf(os.Stderr, "HARNESS-ERROR known_cases/%s.json: %v\n", f.ID, err)
			os.Exit(2)
		}
		f.listed = make(map[string]bool, len(l.Keys))
		for _, x := range l.Keys {
			f.listed[x] = true
		}
	}
	return f.listed[k]
}

func loadFindings() []Finding {
	var f struct {
		Findings []Finding `json:"findings"`
	}
	b, err := os.ReadFile(filepath.Join(Root(), "known_findings.json"))
	if err != nil {
		return nil
	}
	if err := json.Unmarshal(b, &f); err != nil {
		fmt.Fprintf(os.Stderr, "known_findings.json: %v\n", err)
		os.Exit(2)
	}
	return f.Findings
}

func (f *Finding) matches(p *Property, v *Violation) bool {
	if f.Status != "known" || f.Property != v.Property {
		return false
	}
	m := f.Match
	if m.Predicate == "" && len(m.Cases) == 0 && m.CaseRegex == "" {
		return false // never match by property (or class) alone
	}
	if m.Class != "" && m.Class != v.Class {
		return false
	}
	if m.Family != "" && m.Family != v.Family {
		return false
	}
	if m.ClassRegex != "" {
		re, err := regexp.Compile(m.ClassRegex)
		if err != nil || !re.MatchString(v.Class) {
			return false
		}
	}
	if m.Predicate != "" {
		fn := p.KnownPredicates[m.Predicate]
		if fn == nil || !fn(v) {
			return false
		}
	}
	if len(m.Cases) > 0 {
		ok := false
		for _, c := range m.Cases {
			if c == v.Case {
				ok = true
			}
		}
		if !ok {
			return false
		}
	}
	if m.CaseRegex != "" {
		re, err := regexp.Compile(m.CaseRegex)
		if err != nil || !re.MatchString(v.Case) {
			return false
		}
	}
	if m.Listed && !f.inList(v) {
		return false
	}
	return true
}

// Matcher returns the function that maps a violation to the index of the known finding that
// lists it, or -1.
func Matcher(p *Property) func(v *Violation) int {
	findings := loadFindings()
	return func(v *Violation) int {
		for fi := range findings {
			if findings[fi].matches(p, v) {
				return fi
			}
		}
		return -1
	}
}

type evidence struct {
	PropertyID  string         `json:"property_id"`
	Tier        string         `json:"tier"`
	Seed        int            `json:"seed"`
	Level       string         `json:"level"`
	Coverage    map[string]any `json:"coverage"`
	Assumptions []string       `json:"assumptions"`
	WallS       float64        `json:"wall_s"`
	Violations  int            `json:"violations"`
}

func envInt(name string, def int) int {
	if s := os.Getenv(name); s != "" {
		if v, err := strconv.Atoi(s); err == nil {
			return v
		}
	}
	return def
}

// RunCheck is the parent: shards the property over worker subprocesses, merges, confirms,
// matches known findings, writes evidence, prints VIOLATION/KNOWN-FINDING lines.
// Returns the process exit code.
func RunCheck(p *Property, tier string) int {
	start := time.Now()
	nsh := envInt("VERIF_SHARDS", 16)
	budget := 900
	if tier == "thorough" {
		budget = 3600
	}
	budget = envInt("VERIF_DEADLINE_S", budget)
	hang := envInt("VERIF_HANG_S", 60)
	if p.HangS > 0 {
		hang = envInt("VERIF_HANG_S", p.HangS)
	}
	seed := envInt("VERIF_SEED", 0)
	tmp, err := os.MkdirTemp("", "verif-"+p.ID+"-")
	if err != nil {
		fmt.Fprintln(os.Stderr, err)
		return 2
	}
	defer os.RemoveAll(tmp)
	self, _ := os.Executable()
	deadline := start.Add(time.Duration(budget) * time.Second)

	type wres struct {
		r    *R
		hang string
		err  string
	}
	res := make([]wres, nsh)
	var wg sync.WaitGroup
	for s := 0; s < nsh; s++ {
		wg.Add(1)
		go func(s int) {
			defer wg.Done()
			out := filepath.Join(tmp, fmt.Sprintf("w%d.json", s))
			cmd := exec.Command(self, "worker", p.ID, tier, strconv.Itoa(s), strconv.Itoa(nsh), out,
				strconv.FormatInt(deadline.UnixNano(), 10), strconv.Itoa(hang))
			cmd.Env = append(os.Environ(), "GOMAXPROCS="+strconv.Itoa(envInt("VERIF_WORKER_PROCS", 1)))
			var stderr strings.Builder
			cmd.Stdout = nil // library chatter (WARNING prints) is discarded
			cmd.Stderr = &stderr
			runErr := cmd.Run()
			if b, e := os.ReadFile(out + ".hang"); e == nil {
				var h R
				json.Unmarshal(b, &h)
				if len(h.Notes) > 0 {
					res[s].hang = h.Notes[0]
				}
				return
			}
			b, e := os.ReadFile(out)
			if e != nil {
				msg := stderr.String()
				if len(msg) > 2000 {
					msg = msg[len(msg)-2000:]
				}
				res[s].err = fmt.Sprintf("worker %d: %v: %s", s, runErr, msg)
				return
			}
			r := &R{}
			if e := json.Unmarshal(b, r); e != nil {
				res[s].err = e.Error()
				return
			}
			res[s].r = r
		}(s)
	}
	wg.Wait()

	total := newR(p.ID)
	var harnessErrs []string
	for s := range res {
		if res[s].err != "" {
			harnessErrs = append(harnessErrs, res[s].err)
			continue
		}
		if res[s].hang != "" {
			total.Exhaustive = false
			total.Notes = append(total.Notes, res[s].hang)
			// a hang is a violation of "terminates": family#index
			lbl := strings.TrimPrefix(res[s].hang, "HANG ")
			cls, det := "hang", fmt.Sprintf("case did not return within %ds", hang)
			if strings.HasPrefix(lbl, "MEM ") {
				lbl = strings.TrimPrefix(lbl, "MEM ")
				cls, det = "memory", fmt.Sprintf("the process grew by more than %d MiB while the case ran", memLimit>>20)
			}
			fam, idx := lbl, int64(-1)
			if k := strings.LastIndex(lbl, "#"); k >= 0 {
				fam = lbl[:k]
				idx, _ = strconv.ParseInt(lbl[k+1:], 10, 64)
			}
			total.NViolations++
			total.Violations = append(total.Violations, Violation{Property: p.ID, Family: fam, Index: idx, Class: cls, Case: describe(p, tier, fam, idx), Detail: det})
			continue
		}
		r := res[s].r
		total.Evaluations += r.Evaluations
		for _, k := range r.Keys {
			total.keyset[k] = struct{}{}
		}
		for k, v := range r.Outcomes {
			total.Outcomes[k] += v
		}
		for k, v := range r.Counters {
			total.Counters[k] += v
		}
		for k, v := range r.Maxima {
			total.Max(k, v)
		}
		total.Violations = append(total.Violations, r.Violations...)
		for k, v := range r.KnownHits {
			total.KnownHits[k] += v
		}
		total.NViolations += r.NViolations
		for _, sm := range r.Samples {
			total.Sample(sm)
		}
		total.States += r.States
		total.Transitions += r.Transitions
		total.Validated += r.Validated
		total.Notes = append(total.Notes, r.Notes...)
		if !r.Exhaustive {
			total.Exhaustive = false
		}
	}
	if len(harnessErrs) > 0 {
		for _, e := range harnessErrs {
			fmt.Fprintln(os.Stderr, "HARNESS-ERROR", e)
		}
		return 2
	}

	// sort violations simplest-first: by family order of appearance then index
	sort.SliceStable(total.Violations, func(i, j int) bool {
		a, b := total.Violations[i], total.Violations[j]
		if a.Family != b.Family {
			return a.Family < b.Family
		}
		return a.Index < b.Index
	})

	if dump := os.Getenv("VERIF_DUMP"); dump != "" {
		b, _ := json.MarshalIndent(total.Violations, "", " ")
		os.WriteFile(dump, b, 0o644)
	}
	findings := loadFindings()
	knownHit := map[int]int64{}
	for k, v := range total.KnownHits {
		knownHit[k] = v
	}
	// workers already removed the listed violations; everything captured is unlisted
	unlisted := total.Violations
	var nListed int64
	for _, v := range knownHit {
		nListed += v
	}
	nUnlisted := total.NViolations - nListed

	exit := 0
	var fis []int
	for fi := range knownHit {
		fis = append(fis, fi)
	}
	sort.Ints(fis)
	for _, fi := range fis {
		f := findings[fi]
		fmt.Printf("KNOWN-FINDING: property=%s %s: %s (%d cases this run)\n", p.ID, f.ID, f.What, knownHit[fi])
	}
	reported := 0
	stalls := 0
	var sampleReplay string
	seenClass := map[string]int{}
	for _, v := range unlisted {
		// report at most 3 per class, 12 overall; every one is confirmed by replay first
		if seenClass[v.Class] >= 3 || reported >= 12 {
			continue
		}
		path := writeReplay(&v, tier)
		ok, flaky := confirm(self, path, 3)
		if flaky {
			fmt.Fprintf(os.Stderr, "HARNESS-ERROR non-deterministic replay %s\n", path)
			return 2
		}
		if !ok && (v.Class == "hang" || v.Class == "memory") {
			// the case returns promptly when replayed three times: the worker was stalled by the
			// machine (load, memory), not by the case. Not a violation; the shard's remaining cases
			// were not explored, which the evidence says (exhaustive=false).
			total.NViolations--
			nUnlisted--
			stalls++
			total.Notes = append(total.Notes, fmt.Sprintf("transient stall at %s#%d (returned promptly in 3 replays); the rest of that shard was not explored", v.Family, v.Index))
			os.Remove(path)
			continue
		}
		if !ok {
			fmt.Fprintf(os.Stderr, "HARNESS-ERROR violation did not reproduce from replay %s\n", path)
			return 2
		}
		seenClass[v.Class]++
		reported++
		sampleReplay = path
		fmt.Printf("VIOLATION property=%s replay=%s\n", p.ID, path)
		fmt.Printf("  class=%s family=%s case=%s\n  %s\n", v.Class, v.Family, v.Case, firstLine(v.Detail))
		exit = 1
	}
	_ = sampleReplay

	// evidence
	knownByClass := map[string]map[string]int64{}
	for k, n := range total.Counters {
		var fi int
		var cls string
		if strings.HasPrefix(k, "known_finding_") {
			rest := strings.TrimPrefix(k, "known_finding_")
			if j := strings.Index(rest, "_class:"); j > 0 {
				fmt.Sscan(rest[:j], &fi)
				cls = rest[j+len("_class:"):]
				if fi < len(findings) {
					id := findings[fi].ID
					if knownByClass[id] == nil {
						knownByClass[id] = map[string]int64{}
					}
					knownByClass[id][cls] += n
				}
				delete(total.Counters, k)
			}
		}
	}
	cov := map[string]any{
		"evaluations":             total.Evaluations,
		"distinct_nontrivial":     len(total.keyset),
		"rule":                    p.Rule,
		"samples":                 total.Samples,
		"exhaustive":              total.Exhaustive,
		"outcome_classes":         total.Outcomes,
		"observed_maxima":         total.Maxima,
		"counters":                total.Counters,
		"violations_observed":     total.NViolations,
		"violations_unlisted":     len(unlisted) - stalls,
		"known_findings_hit":      len(knownHit),
		"known_findings_by_class": knownByClass,
		"shards":                  nsh,
		"deadline_s":              budget,
		"notes":                   total.Notes,
		"distinct_outcomes":       len(total.Outcomes),
	}
	if p.Level == "model_checking" {
		cov["states"] = total.States
		cov["transitions"] = total.Transitions
		cov["traces_validated_against_impl"] = total.Validated
	}
	if len(total.Samples) == 0 {
		cov["samples"] = []string{"(no sample recorded)"}
	}
	ev := evidence{PropertyID: p.ID, Tier: tier, Seed: seed, Level: p.Level, Coverage: cov,
		Assumptions: p.Assumptions, WallS: time.Since(start).Seconds(), Violations: int(nUnlisted)}
	b, _ := json.MarshalIndent(ev, "", " ")
	os.MkdirAll(filepath.Join(Root(), "evidence"), 0o755)
	os.WriteFile(filepath.Join(Root(), "evidence", p.ID+".json"), b, 0o644)

	fmt.Printf("%s %s: evaluations=%d distinct_nontrivial=%d outcomes=%d violations=%d (unlisted %d) exhaustive=%v wall=%.1fs\n",
		p.ID, tier, total.Evaluations, len(total.keyset), len(total.Outcomes), total.NViolations, nUnlisted, total.Exhaustive, time.Since(start).Seconds())
	if p.Level == "model_checking" {
		fmt.Printf("  states=%d transitions=%d validated=%d\n", total.States, total.Transitions, total.Validated)
	}
	return exit
}

func firstLine(s string) string {
	if i := strings.IndexByte(s, '\n'); i >= 0 {
		s = s[:i]
	}
	if len(s) > 400 {
		s = s[:400] + "…"
	}
	return s
}

func describe(p *Property, tier, fam string, idx int64) string {
	if p.Families == nil || idx < 0 {
		return fam
	}
	for _, f := range p.Families(tier) {
		if f.Name == fam && f.Desc != nil && idx < f.N {
			return f.Desc(idx)
		}
	}
	return fam
}

type replayFile struct {
	Violation
	Tier string `json:"tier"`
}

func writeReplay(v *Violation, tier string) string {
	dir := filepath.Join(Root(), "replays")
	os.MkdirAll(dir, 0o755)
	h := sha1.Sum([]byte(v.Family + "\x00" + v.Case + "\x00" + v.Class))
	path := filepath.Join(dir, fmt.Sprintf("%s-%x.json", v.Property, h[:6]))
	b, _ := json.MarshalIndent(replayFile{*v, tier}, "", " ")
	os.WriteFile(path, b, 0o644)
	return path
}

// confirm replays the file n times in fresh processes; ok = reproduced every time.
func confirm(self, path string, n int) (ok, flaky bool) {
	hits := 0
	for i := 0; i < n; i++ {
		cmd := exec.Command(self, "replay", path)
		cmd.Env = append(os.Environ(), "GOMAXPROCS=1")
		err := cmd.Run()
		if err != nil {
			if ee, isExit := err.(*exec.ExitError); isExit && ee.ExitCode() == 1 {
				hits++
			}
		}
	}
	return hits == n, hits != 0 && hits != n
}

// Replay re-executes one replay file; exit 1 if the violation (same class) reproduces.
func Replay(props map[string]*Property, path string) int {
	b, err := os.ReadFile(path)
	if err != nil {
		fmt.Fprintln(os.Stderr, err)
		return 2
	}
	var rf replayFile
	if err := json.Unmarshal(b, &rf); err != nil {
		fmt.Fprintln(os.Stderr, err)
		return 2
	}
	p := props[rf.Property]
	if p == nil {
		fmt.Fprintln(os.Stderr, "unknown property", rf.Property)
		return 2
	}
	r := newR(p.ID)
	done := make(chan struct{})
	go func() {
		defer close(done)
		if rf.Index >= 0 && p.Families != nil {
			for _, f := range p.Families(rf.Tier) {
				if f.Name == rf.Family {
					if f.Setup != nil {
						f.Setup()
					}
					f := f
					runCase(&f, rf.Index, r)
					return
				}
			}
		}
		if p.Customs != nil {
			for _, c := range p.Customs(rf.Tier) {
				if c.Name == rf.Family && c.Replay != nil {
					r.curFam = c.Name
					func() {
						defer func() {
							if e := recover(); e != nil {
								r.ViolateCase(c.Name, "panic", rf.Case, fmt.Sprint(e))
							}
						}()
						c.Replay(rf.Case, r)
					}()
					return
				}
			}
		}
		fmt.Fprintln(os.Stderr, "family not found:", rf.Family)
	}()
	mem := make(chan struct{})
	go func() {
		base := residentBytes()
		for {
			time.Sleep(50 * time.Millisecond)
			if residentBytes()-base > memLimit {
				close(mem)
				return
			}
		}
	}()
	select {
	case <-done:
	case <-mem:
		if rf.Class == "memory" {
			fmt.Println("REPRODUCED memory", rf.Case)
			return 1
		}
		fmt.Println("unexpected memory growth")
		return 2
	case <-time.After(time.Duration(envInt("VERIF_HANG_S", hangDefault(p))) * time.Second):
		if rf.Class == "hang" {
			fmt.Println("REPRODUCED hang", rf.Case)
			return 1
		}
		fmt.Println("unexpected hang")
		return 2
	}
	for _, v := range r.Violations {
		if v.Class == rf.Class {
			fmt.Printf("REPRODUCED property=%s class=%s\ncase: %s\n%s\n", rf.Property, v.Class, v.Case, v.Detail)
			return 1
		}
	}
	fmt.Printf("not reproduced (property=%s class=%s case=%s); observed %d other violations\n", rf.Property, rf.Class, rf.Case, len(r.Violations))
	return 0
}

func hangDefault(p *Property) int {
	if p.HangS > 0 {
		return p.HangS
	}
	return 60
}
