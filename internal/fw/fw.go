// Package fw is the exploration framework shared by all property checks: it enumerates finite
// case spaces completely (sharded over worker subprocesses), merges tallies, confirms
// violations by replay, matches them against the committed known-findings file and writes the
// evidence file. Nothing in here knows about canvas.
package fw

import (
	"encoding/json"
	"fmt"
	"hash/fnv"
	"math"
	"os"
	"runtime/debug"
	"sort"
	"strconv"
	"strings"
	"sync/atomic"
	"time"
)

// Family is one finite, completely enumerable case space. Case i (0 <= i < N) is decoded and
// checked by Check; Desc renders it in readable form for replays and evidence samples.
type Family struct {
	Name  string
	N     int64
	Check func(i int64, r *R)
	Desc  func(i int64) string
	// Setup is run once in each worker before the first case of the family (tunables).
	Setup func()
	// Teardown restores tunables.
	Teardown func()
}

// Custom is a search that manages its own exploration (explicit-state BFS, scheduler DFS).
// It runs in ONE worker subprocess and may use goroutines. It reports through R as well.
type Custom struct {
	Name string
	Run  func(r *R, deadline time.Time)
	// Replay re-executes one recorded case (the string stored in Violation.Case).
	Replay func(c string, r *R)
}

// Property describes one check.
type Property struct {
	ID          string
	Level       string // exploration | model_checking | fault_enumeration
	Rule        string
	Assumptions []string
	Families    func(tier string) []Family
	Customs     func(tier string) []Custom
	// KnownPredicates maps predicate names usable in known_findings.json to matchers.
	KnownPredicates map[string]func(v *Violation) bool
	// HangS overrides the per-case watchdog (seconds) for properties whose cases are whole searches.
	HangS int
}

var registry = map[string]*Property{}

// Register adds a property to the global registry (called from init functions).
func Register(p *Property) { registry[p.ID] = p }

// Registry returns all registered properties.
func Registry() map[string]*Property { return registry }

// Violation is one failing case.
type Violation struct {
	Property string `json:"property"`
	Family   string `json:"family"`
	Index    int64  `json:"index"`
	Class    string `json:"class"`
	Case     string `json:"case"`
	Detail   string `json:"detail"`
}

// R accumulates what a worker observed.
type R struct {
	Evaluations int64              `json:"evaluations"`
	Keys        []uint64           `json:"keys"`
	Outcomes    map[string]int64   `json:"outcomes"`
	Maxima      map[string]float64 `json:"maxima"`
	Violations  []Violation        `json:"violations"`
	NViolations int64              `json:"nviolations"`
	Samples     []string           `json:"samples"`
	States      int64              `json:"states"`
	Transitions int64              `json:"transitions"`
	Validated   int64              `json:"validated"`
	Counters    map[string]int64   `json:"counters"`
	Exhaustive  bool               `json:"exhaustive"`
	Notes       []string           `json:"notes"`
	KnownHits   map[int]int64      `json:"known_hits"`

	keyset  map[uint64]struct{}
	curFam  string
	curIdx  int64
	curDesc func(i int64) string
	prop    string
	vioCap  int
	vioSeen map[string]int
	matcher func(v *Violation) int // index into known findings or -1
}

func newR(prop string) *R {
	return &R{Outcomes: map[string]int64{}, Maxima: map[string]float64{}, Counters: map[string]int64{},
		keyset: map[uint64]struct{}{}, KnownHits: map[int]int64{}, prop: prop, vioCap: envInt("VERIF_VIOCAP", 3000), vioSeen: map[string]int{}, Exhaustive: true}
}

// NewR returns a standalone accumulator (used by tests of the harness itself).
func NewR(prop string) *R { return newR(prop) }

func hash64(s string) uint64 {
	h := fnv.New64a()
	h.Write([]byte(s))
	return h.Sum64()
}

// Nontrivial records a distinct, non-trivial case by its canonical key.
func (r *R) Nontrivial(key string) {
	r.keyset[hash64(r.curFam+"\x00"+key)] = struct{}{}
}

// NontrivialIdx records the current case (its family and index) as non-trivial; use when the
// enumeration itself never produces the same case twice.
func (r *R) NontrivialIdx() {
	r.keyset[hash64(fmt.Sprintf("%s\x00#%d", r.curFam, r.curIdx))] = struct{}{}
}

// Outcome tallies an observed outcome class (vacuity guard: read the number of classes).
func (r *R) Outcome(class string) { r.Outcomes[class]++ }

// Count adds to a named counter.
func (r *R) Count(name string, n int64) { r.Counters[name] += n }

// Max records an observed maximum (calibration drift is visible in the evidence).
func (r *R) Max(name string, v float64) {
	// JSON has no NaN or Inf: a non-finite observation is recorded as the largest float and tallied
	if math.IsNaN(v) || math.IsInf(v, 0) {
		r.Count("non_finite_observation:"+name, 1)
		v = math.MaxFloat64
	}
	if old, ok := r.Maxima[name]; !ok || v > old {
		r.Maxima[name] = v
	}
}

// Sample keeps a few cases written out.
func (r *R) Sample(s string) {
	if len(r.Samples) < 6 {
		r.Samples = append(r.Samples, s)
	}
}

// Violate records a violation of the current case. class names the clause that failed.
func (r *R) Violate(class, detail string) {
	c := ""
	if r.curDesc != nil {
		c = r.curDesc(r.curIdx)
	}
	r.record(Violation{Property: r.prop, Family: r.curFam, Index: r.curIdx, Class: class, Case: c, Detail: detail})
}

// ViolateCase is Violate for Custom searches that describe the case themselves.
func (r *R) ViolateCase(fam, class, c, detail string) {
	r.record(Violation{Property: r.prop, Family: fam, Index: -1, Class: class, Case: c, Detail: detail})
}

// record matches the violation against the known findings right away (so that the capture cap
// can never hide an unlisted violation behind listed ones) and keeps unlisted ones up to the cap.
func (r *R) record(v Violation) {
	r.NViolations++
	if r.matcher != nil {
		if fi := r.matcher(&v); fi >= 0 {
			r.KnownHits[fi]++
			r.Counters[fmt.Sprintf("known_finding_%d_class:%s", fi, v.Class)]++
			return
		}
	}
	if len(r.Violations) < r.vioCap {
		r.Violations = append(r.Violations, v)
	}
}

// SetFamily sets the family label used for keys (Custom searches).
func (r *R) SetFamily(name string) { r.curFam = name }

func (r *R) finish() {
	r.Keys = r.Keys[:0]
	for k := range r.keyset {
		r.Keys = append(r.Keys, k)
	}
	sort.Slice(r.Keys, func(i, j int) bool { return r.Keys[i] < r.Keys[j] })
}

// watchdog state
var caseStart atomic.Int64 // monotonic nanoseconds since procStart (+1), 0 = no case running
var procStart = time.Now()

// memLimit: how much the resident set may grow while one case runs
var memLimit = int64(envInt("VERIF_MEM_MB", 2048)) << 20

func residentBytes() int64 {
	b, err := os.ReadFile("/proc/self/statm")
	if err != nil {
		return 0
	}
	f := strings.Fields(string(b))
	if len(f) < 2 {
		return 0
	}
	n, _ := strconv.ParseInt(f[1], 10, 64)
	return n * int64(os.Getpagesize())
}

var caseLabel atomic.Value

// RunCase runs one case of a family under recover and the hang watchdog.
func runCase(f *Family, i int64, r *R) {
	r.curFam, r.curIdx, r.curDesc = f.Name, i, f.Desc
	caseLabel.Store(fmt.Sprintf("%s#%d", f.Name, i))
	caseStart.Store(int64(time.Since(procStart)) + 1)
	defer caseStart.Store(0)
	defer func() {
		if e := recover(); e != nil {
			r.Violate("panic", fmt.Sprintf("%v\n%s", e, trimStack(debug.Stack())))
		}
	}()
	r.Evaluations++
	f.Check(i, r)
}

func trimStack(b []byte) string {
	if len(b) > 3000 {
		b = b[:3000]
	}
	return string(b)
}

// Worker executes shard `shard` of `n` of the property's families (and custom searches when
// shard==0) and writes its R as JSON to out.
func Worker(p *Property, tier string, shard, n int, out string, deadline time.Time, hangLimit time.Duration) {
	r := newR(p.ID)
	r.matcher = Matcher(p)
	write := func() {
		r.finish()
		b, _ := json.Marshal(r)
		tmp := out + ".tmp"
		os.WriteFile(tmp, b, 0o644)
		os.Rename(tmp, out)
	}
	// watchdog: a case that runs longer than hangLimit is reported as non-terminating, a case during
	// which the process grows by more than memLimit as exhausting memory (the sandbox has no memory
	// limit: one runaway case would otherwise take the whole machine down)
	go func() {
		abort := func(kind string) {
			lbl, _ := caseLabel.Load().(string)
			h := newR(p.ID)
			h.Exhaustive = false
			h.Notes = []string{kind + " " + lbl}
			b, _ := json.Marshal(h)
			os.WriteFile(out+".hang", b, 0o644)
			os.Exit(3)
		}
		var lastSt, base int64
		for {
			time.Sleep(50 * time.Millisecond)
			st := caseStart.Load()
			if st == 0 {
				lastSt = 0
				continue
			}
			if st != lastSt {
				lastSt, base = st, residentBytes()
				continue
			}
			if time.Since(procStart)-time.Duration(st) > hangLimit { // monotonic: a wall-clock step cannot fake a hang
				abort("HANG")
			}
			if residentBytes()-base > memLimit {
				abort("MEM")
			}
		}
	}()
	if p.Families != nil {
		for _, f := range p.Families(tier) {
			f := f
			if f.Setup != nil {
				f.Setup()
			}
			for i := int64(shard); i < f.N; i += int64(n) {
				if (i/int64(n))%64 == 0 && time.Now().After(deadline) {
					r.Exhaustive = false
					r.Notes = append(r.Notes, fmt.Sprintf("deadline in family %s at index %d of %d", f.Name, i, f.N))
					break
				}
				runCase(&f, i, r)
				if i < 3*int64(n) && i%int64(n) == int64(shard) && shard < 2 && f.Desc != nil && len(r.Samples) < 6 {
					r.Sample(f.Name + ": " + f.Desc(i))
				}
			}
			if f.Teardown != nil {
				f.Teardown()
			}
		}
	}
	if p.Customs != nil {
		cs := p.Customs(tier)
		for ci, c := range cs {
			if ci%n != shard {
				continue
			}
			r.curFam, r.curIdx, r.curDesc = c.Name, -1, nil
			func() {
				defer func() {
					if e := recover(); e != nil {
						r.ViolateCase(c.Name, "panic", "custom search "+c.Name, fmt.Sprintf("%v\n%s", e, trimStack(debug.Stack())))
					}
				}()
				c.Run(r, deadline)
			}()
		}
	}
	write()
}
