package fw

import (
	"fmt"
	"os"
	"sort"
	"strconv"
	"time"
)

// Main is the whole command; the per-property files next to this one only register checks.
func Main() {
	if len(os.Args) < 2 {
		fmt.Fprintln(os.Stderr, "usage: verif check <ID> [quick|thorough] | replay <file> | list")
		os.Exit(2)
	}
	props := Registry()
	switch os.Args[1] {
	case "list":
		var ids []string
		for id := range props {
			ids = append(ids, id)
		}
		sort.Strings(ids)
		for _, id := range ids {
			fmt.Println(id)
		}
	case "check":
		if len(os.Args) < 3 {
			os.Exit(2)
		}
		p := props[os.Args[2]]
		if p == nil {
			fmt.Fprintln(os.Stderr, "unknown property", os.Args[2])
			os.Exit(2)
		}
		tier := "quick"
		if len(os.Args) > 3 {
			tier = os.Args[3]
		}
		if t := os.Getenv("VERIF_TIER"); t != "" && len(os.Args) <= 3 {
			tier = t
		}
		os.Exit(RunCheck(p, tier))
	case "replay":
		os.Exit(Replay(props, os.Args[2]))
	case "worker":
		// worker ID tier shard n out deadlineUnixNano hangS
		p := props[os.Args[2]]
		shard, _ := strconv.Atoi(os.Args[4])
		n, _ := strconv.Atoi(os.Args[5])
		dl, _ := strconv.ParseInt(os.Args[7], 10, 64)
		hang, _ := strconv.Atoi(os.Args[8])
		Worker(p, os.Args[3], shard, n, os.Args[6], time.Unix(0, dl), time.Duration(hang)*time.Second)
	default:
		if f := Commands[os.Args[1]]; f != nil {
			os.Exit(f(os.Args[2:]))
		}
		os.Exit(2)
	}
}

// Commands are extra sub-commands of the checker binary that property packages register for the
// helper processes they start themselves (e.g. a call history run in a fresh process).
var Commands = map[string]func(args []string) int{}
