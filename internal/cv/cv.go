// Package cv holds small adapters between the oracle's plain data and canvas objects.
package cv

import (
	"github.com/tdewolff/canvas"

	"verif/internal/oracle"
)

// Path builds a fresh canvas path from (a copy of) raw data.
func Path(d []float64) *canvas.Path {
	return canvas.NewPathFromData(append([]float64(nil), d...))
}

// Dense flattens a canvas path with the oracle's own evaluators.
func Dense(p *canvas.Path, n int) []oracle.Polyline {
	return oracle.DenseData(p.Data(), n)
}

// Fills evaluates the fill rule on a winding number (independent of canvas.FillRule.Fills).
func Fills(rule canvas.FillRule, w int) bool {
	switch rule {
	case canvas.NonZero:
		return w != 0
	case canvas.EvenOdd:
		return w%2 != 0
	case canvas.Positive:
		return w > 0
	case canvas.Negative:
		return w < 0
	}
	panic("unknown fill rule")
}
