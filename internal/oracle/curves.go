package oracle

// Exact extrema of Bézier segments and rotated elliptical arcs, arc length by dense summation,
// arc-length parametrised traces of whole paths, nearest-point parameters, and plain 2x3 affine
// algebra. Everything here follows the textbook definitions; nothing is imported from canvas.

import (
	"math"
	"sort"
)

// ArcStatus classifies the conditioning of an endpoint-parametrised arc (input-only decision).
type ArcStatus int

const (
	ArcOK             ArcStatus = iota // radii strictly larger than needed: centre well conditioned
	ArcHalf                            // radii exactly span the chord (up to rounding): half ellipse, centre = chord midpoint
	ArcTooSmall                        // radii too small for the chord: not a canonical arc (radii would be scaled up)
	ArcIllConditioned                  // radii within 1e-6 relative of the minimum but not equal: centre too sensitive to call
)

// ArcLambda is the W3C F.6.6 quantity x1'^2/rx^2 + y1'^2/ry^2 (1 = radii exactly span the chord).
func ArcLambda(p0 Pt, rx, ry, phi float64, p1 Pt) float64 {
	cs, sn := math.Cos(phi), math.Sin(phi)
	dx, dy := (p0.X-p1.X)/2, (p0.Y-p1.Y)/2
	x1 := cs*dx + sn*dy
	y1 := -sn*dx + cs*dy
	return x1*x1/(rx*rx) + y1*y1/(ry*ry)
}

// ArcGeom is the centre parametrisation of an arc segment like ArcCenter, but the half-ellipse
// case (lambda = 1 up to rounding, which is what a builder that scales too-small radii produces)
// is computed in closed form instead of through the square root of a rounding residue, which
// would put the centre off by ~1e-8.
func ArcGeom(s Seg) (c Pt, th0, dth, rx, ry float64, st ArcStatus) {
	lam := ArcLambda(s.P0, s.Rx, s.Ry, s.Phi, s.P1)
	switch {
	case math.Abs(lam-1) <= 1e-12:
		st = ArcHalf
	case lam > 1:
		st = ArcTooSmall
	case lam > 1-1e-6:
		st = ArcIllConditioned
	}
	if st != ArcHalf {
		c, th0, dth, rx, ry = ArcCenter(s.P0, s.Rx, s.Ry, s.Phi, s.Large, s.Sweep, s.P1)
		return
	}
	rx, ry = s.Rx, s.Ry
	c = Pt{(s.P0.X + s.P1.X) / 2, (s.P0.Y + s.P1.Y) / 2}
	cs, sn := math.Cos(s.Phi), math.Sin(s.Phi)
	dx, dy := s.P0.X-c.X, s.P0.Y-c.Y
	th0 = math.Atan2((-sn*dx+cs*dy)/ry, (cs*dx+sn*dy)/rx)
	dth = math.Pi
	if !s.Sweep {
		dth = -math.Pi
	}
	return
}

// SegAt evaluates a segment like Seg.At but with ArcGeom for arcs.
func SegAt(s Seg, t float64) Pt {
	if s.Kind != CmdArc {
		return s.At(t)
	}
	if t == 0 {
		return s.P0
	} else if t == 1 {
		return s.P1
	}
	c, th0, dth, rx, ry, _ := ArcGeom(s)
	return EllipseAt(c, rx, ry, s.Phi, th0+t*dth)
}

// SegSample is Seg.Sample with ArcGeom for arcs.
func SegSample(s Seg, n int) []Pt {
	if s.Kind != CmdArc {
		return s.Sample(n)
	}
	c, th0, dth, rx, ry, _ := ArcGeom(s)
	pts := make([]Pt, 0, n+1)
	pts = append(pts, s.P0)
	for i := 1; i < n; i++ {
		pts = append(pts, EllipseAt(c, rx, ry, s.Phi, th0+dth*float64(i)/float64(n)))
	}
	return append(pts, s.P1)
}

// DenseR is Dense with SegSample.
func DenseR(sps []Subpath, n int) []Polyline {
	out := make([]Polyline, 0, len(sps))
	for _, sp := range sps {
		pl := Polyline{P: []Pt{sp.Start}, Closed: sp.Closed}
		for _, s := range sp.Segs {
			pl.P = append(pl.P, SegSample(s, n)[1:]...)
		}
		out = append(out, pl)
	}
	return out
}

// ArcsWellConditioned reports whether every arc of the subpaths is ArcOK or ArcHalf.
func ArcsWellConditioned(sps []Subpath) bool {
	for _, sp := range sps {
		for _, s := range sp.Segs {
			if s.Kind == CmdArc {
				if _, _, _, _, _, st := ArcGeom(s); st != ArcOK && st != ArcHalf {
					return false
				}
			}
		}
	}
	return true
}

// polyRoots2 returns the real roots of a t^2 + b t + c (stable formula, no epsilons) plus the
// stationary point -b/2a. Callers only use the values as curve parameters at which to evaluate
// the curve, so superfluous values are harmless.
func polyRoots2(a, b, c float64) []float64 {
	var out []float64
	if a == 0 {
		if b != 0 {
			out = append(out, -c/b)
		}
		return out
	}
	out = append(out, -b/(2*a))
	disc := b*b - 4*a*c
	if disc < 0 {
		return out
	}
	q := math.Sqrt(disc)
	if b < 0 {
		q = -q
	}
	q = -(b + q) / 2
	out = append(out, q/a)
	if q != 0 {
		out = append(out, c/q)
	}
	return out
}

func clampParams(ts []float64) []float64 {
	var out []float64
	for _, t := range ts {
		if math.IsNaN(t) || math.IsInf(t, 0) {
			continue
		}
		if t > 0 && t < 1 {
			out = append(out, t)
		}
	}
	sort.Float64s(out)
	return out
}

// derivCoefs returns for one coordinate of a Bézier the coefficients (a,b,c) of B'(t)/k = a t^2 + b t + c.
func quadDeriv(p0, c1, p1 float64) (a, b, c float64) {
	// B'(t)/2 = (c1-p0) + t (p0 - 2c1 + p1)
	return 0, p0 - 2*c1 + p1, c1 - p0
}

func cubeDeriv(p0, c1, c2, p1 float64) (a, b, c float64) {
	// B'(t)/3 = (c1-p0) + 2t (p0 - 2c1 + c2) + t^2 (-p0 + 3c1 - 3c2 + p1)
	return -p0 + 3*c1 - 3*c2 + p1, 2 * (p0 - 2*c1 + c2), c1 - p0
}

// arcParamOf maps an ellipse angle th to the arc parameter t (th0 + t*dth = th mod 2pi),
// returning t in [0, 2pi/|dth|).
func arcParamOf(th, th0, dth float64) float64 {
	if dth == 0 {
		return math.NaN()
	}
	d := th - th0
	if dth < 0 {
		d = -d
	}
	d = math.Mod(d, 2*math.Pi)
	if d < 0 {
		d += 2 * math.Pi
	}
	return d / math.Abs(dth)
}

// AxisExtremaParams returns the parameters in (0,1) at which dx/dt = 0 (axis 0) or dy/dt = 0
// (axis 1). For arcs, extreme angles that coincide with an end point up to 1e-9 rad are
// returned clamped into (0,1) as well (evaluating there is harmless).
func (s Seg) AxisExtremaParams(axis int) []float64 {
	pick := func(p Pt) float64 {
		if axis == 0 {
			return p.X
		}
		return p.Y
	}
	switch s.Kind {
	case CmdQuad:
		a, b, c := quadDeriv(pick(s.P0), pick(s.C1), pick(s.P1))
		return clampParams(polyRoots2(a, b, c))
	case CmdCube:
		a, b, c := cubeDeriv(pick(s.P0), pick(s.C1), pick(s.C2), pick(s.P1))
		return clampParams(polyRoots2(a, b, c))
	case CmdArc:
		_, th0, dth, rx, ry, _ := ArcGeom(s)
		cs, sn := math.Cos(s.Phi), math.Sin(s.Phi)
		var base float64
		if axis == 0 {
			// x(th) = cx + rx cos th cos phi - ry sin th sin phi; x' = 0 <=> tan th = -ry sin phi / (rx cos phi)
			base = math.Atan2(-ry*sn, rx*cs)
		} else {
			// y(th) = cy + rx cos th sin phi + ry sin th cos phi; y' = 0 <=> tan th = ry cos phi / (rx sin phi)
			base = math.Atan2(ry*cs, rx*sn)
		}
		var ts []float64
		for k := 0; k < 2; k++ {
			t := arcParamOf(base+float64(k)*math.Pi, th0, dth)
			period := 2 * math.Pi / math.Abs(dth)
			for _, tt := range []float64{t, t - period} {
				if tt > -1e-9 && tt < 1+1e-9 {
					tt = math.Min(math.Max(tt, 1e-15), 1-1e-15)
					ts = append(ts, tt)
				}
			}
		}
		return clampParams(ts)
	}
	return nil
}

// ExactBBox is the tight axis-aligned box of the segment: end points and the curve evaluated at
// its stationary parameters.
func (s Seg) ExactBBox() (lo, hi Pt) {
	lo = Pt{math.Min(s.P0.X, s.P1.X), math.Min(s.P0.Y, s.P1.Y)}
	hi = Pt{math.Max(s.P0.X, s.P1.X), math.Max(s.P0.Y, s.P1.Y)}
	for axis := 0; axis < 2; axis++ {
		for _, t := range s.AxisExtremaParams(axis) {
			p := SegAt(s, t)
			lo.X, lo.Y = math.Min(lo.X, p.X), math.Min(lo.Y, p.Y)
			hi.X, hi.Y = math.Max(hi.X, p.X), math.Max(hi.Y, p.Y)
		}
	}
	return
}

// ExactBBoxPath is the union of the exact boxes of all segments (and MoveTo points) of the subpaths.
func ExactBBoxPath(sps []Subpath) (lo, hi Pt, ok bool) {
	lo = Pt{math.Inf(1), math.Inf(1)}
	hi = Pt{math.Inf(-1), math.Inf(-1)}
	add := func(p Pt) {
		ok = true
		lo.X, lo.Y = math.Min(lo.X, p.X), math.Min(lo.Y, p.Y)
		hi.X, hi.Y = math.Max(hi.X, p.X), math.Max(hi.Y, p.Y)
	}
	for _, sp := range sps {
		add(sp.Start)
		for _, s := range sp.Segs {
			a, b := s.ExactBBox()
			add(a)
			add(b)
		}
	}
	return
}

// IsCurve reports whether the segment is not a straight line command.
func (s Seg) IsCurve() bool { return s.Kind == CmdQuad || s.Kind == CmdCube || s.Kind == CmdArc }

// SegLength is the arc length by dense chord summation (n chords, Richardson-extrapolated with n/2).
func SegLength(s Seg) float64 { return SegLengthN(s, 8192) }

// SegLengthN is SegLength with n chords (n even).
func SegLengthN(s Seg, n int) float64 {
	if !s.IsCurve() {
		return s.P0.Dist(s.P1)
	}
	pts := SegSample(s, n)
	l1, l2 := 0.0, 0.0
	for i := 0; i+1 < len(pts); i++ {
		l1 += pts[i].Dist(pts[i+1])
	}
	for i := 0; i+2 < len(pts); i += 2 {
		l2 += pts[i].Dist(pts[i+2])
	}
	return l1 + (l1-l2)/3
}

// PathLength sums SegLength over all segments.
func PathLength(sps []Subpath) float64 { return PathLengthN(sps, 8192) }

// PathLengthN sums SegLengthN over all segments.
func PathLengthN(sps []Subpath, n int) float64 {
	l := 0.0
	for _, sp := range sps {
		for _, s := range sp.Segs {
			l += SegLengthN(s, n)
		}
	}
	return l
}

// NearestParam returns the parameter in [0,1] of the point of s nearest to q and its distance
// (n uniform samples, then golden-section refinement around the best one).
func NearestParam(s Seg, q Pt, n int) (float64, float64) {
	if !s.IsCurve() {
		ab := s.P1.Sub(s.P0)
		l2 := ab.Dot(ab)
		if l2 == 0 {
			return 0, q.Dist(s.P0)
		}
		t := math.Min(1, math.Max(0, q.Sub(s.P0).Dot(ab)/l2))
		return t, q.Dist(SegAt(s, t))
	}
	best, bd := 0, math.Inf(1)
	for i := 0; i <= n; i++ {
		if d := q.Dist(SegAt(s, float64(i)/float64(n))); d < bd {
			best, bd = i, d
		}
	}
	lo := math.Max(0, float64(best-1)/float64(n))
	hi := math.Min(1, float64(best+1)/float64(n))
	const g = 0.6180339887498949
	a, b := lo, hi
	c, d := b-g*(b-a), a+g*(b-a)
	fc, fd := q.Dist(SegAt(s, c)), q.Dist(SegAt(s, d))
	for i := 0; i < 60; i++ {
		if fc < fd {
			b, d, fd = d, c, fc
			c = b - g*(b-a)
			fc = q.Dist(SegAt(s, c))
		} else {
			a, c, fc = c, d, fd
			d = a + g*(b-a)
			fd = q.Dist(SegAt(s, d))
		}
	}
	t := (a + b) / 2
	if dd := q.Dist(SegAt(s, t)); dd < bd {
		return t, dd
	}
	return float64(best) / float64(n), bd
}

// Trace is a whole path as one dense point sequence parametrised by cumulative arc length.
// Jump[i] is true when there is no drawn connection between P[i-1] and P[i] (a new subpath).
type Trace struct {
	P    []Pt
	S    []float64 // cumulative drawn length at P[i]
	Jump []bool
	Seg  []int // index of the segment (in path order, over all subpaths) that P[i] ends
	// per segment (path order)
	SegS0, SegS1 []float64 // arc length at segment start / end
	SegCurve     []bool
}

// NewTrace samples every curved segment with n chords.
func NewTrace(sps []Subpath, n int) *Trace {
	tr := &Trace{}
	s := 0.0
	k := 0
	for _, sp := range sps {
		tr.P = append(tr.P, sp.Start)
		tr.S = append(tr.S, s)
		tr.Jump = append(tr.Jump, true)
		tr.Seg = append(tr.Seg, k)
		for _, sg := range sp.Segs {
			pts := SegSample(sg, n)
			tr.SegS0 = append(tr.SegS0, s)
			for i := 1; i < len(pts); i++ {
				s += pts[i-1].Dist(pts[i])
				tr.P = append(tr.P, pts[i])
				tr.S = append(tr.S, s)
				tr.Jump = append(tr.Jump, false)
				tr.Seg = append(tr.Seg, k)
			}
			tr.SegS1 = append(tr.SegS1, s)
			tr.SegCurve = append(tr.SegCurve, sg.IsCurve())
			k++
		}
	}
	return tr
}

// Total is the total drawn length.
func (tr *Trace) Total() float64 {
	if len(tr.S) == 0 {
		return 0
	}
	return tr.S[len(tr.S)-1]
}

// Between returns the drawn geometry between arc lengths a <= b as polylines (split at jumps).
func (tr *Trace) Between(a, b float64) []Polyline {
	var out []Polyline
	var cur []Pt
	flush := func() {
		if len(cur) > 0 {
			out = append(out, Polyline{P: cur})
			cur = nil
		}
	}
	for i := 1; i < len(tr.P); i++ {
		if tr.Jump[i] {
			flush()
			continue
		}
		s0, s1 := tr.S[i-1], tr.S[i]
		if s1 < a || s0 > b || (a < b && math.Min(s1, b) <= math.Max(s0, a)) {
			continue // no overlap of positive length with [a,b]
		}
		p, q := tr.P[i-1], tr.P[i]
		if s1 > s0 {
			if a > s0 {
				p = Lerp(tr.P[i-1], tr.P[i], (a-s0)/(s1-s0))
			}
			if b < s1 {
				q = Lerp(tr.P[i-1], tr.P[i], (b-s0)/(s1-s0))
			}
		}
		if len(cur) == 0 {
			cur = append(cur, p)
		}
		cur = append(cur, q)
		if b < s1 {
			break
		}
	}
	flush()
	return out
}

// BetweenMin is Between without the stretches shorter than minLen (slivers next to a jump that
// only exist because two length computations differ in the last digits).
func (tr *Trace) BetweenMin(a, b, minLen float64) []Polyline {
	var out []Polyline
	for _, pl := range tr.Between(a, b) {
		if Length([]Polyline{pl}) >= minLen {
			out = append(out, pl)
		}
	}
	return out
}

// PointsAt returns the point(s) of the trace at arc length s: two points when s falls on a jump
// between subpaths (end of one, start of the next), within slack.
func (tr *Trace) PointsAt(s, slack float64) []Pt {
	var out []Pt
	for i := 1; i < len(tr.P); i++ {
		if tr.Jump[i] {
			continue
		}
		s0, s1 := tr.S[i-1], tr.S[i]
		if s < s0-slack || s > s1+slack {
			continue
		}
		t := 0.0
		if s1 > s0 {
			t = math.Min(1, math.Max(0, (s-s0)/(s1-s0)))
		}
		out = append(out, Lerp(tr.P[i-1], tr.P[i], t))
	}
	return out
}

// ---- 2x3 affine algebra (row-major: x' = A x + B y + E, y' = C x + D y + F) ----

type Aff struct{ A, B, E, C, D, F float64 }

var AffIdentity = Aff{A: 1, D: 1}

func (m Aff) Apply(p Pt) Pt { return Pt{m.A*p.X + m.B*p.Y + m.E, m.C*p.X + m.D*p.Y + m.F} }

// Then returns the map "first m, then n" (n∘m).
func (m Aff) Then(n Aff) Aff { return n.After(m) }

// After returns m∘n (apply n first, then m) — the ordinary matrix product m·n.
func (m Aff) After(n Aff) Aff {
	return Aff{
		A: m.A*n.A + m.B*n.C, B: m.A*n.B + m.B*n.D, E: m.A*n.E + m.B*n.F + m.E,
		C: m.C*n.A + m.D*n.C, D: m.C*n.B + m.D*n.D, F: m.C*n.E + m.D*n.F + m.F,
	}
}

func (m Aff) Det() float64 { return m.A*m.D - m.B*m.C }

func AffTranslate(x, y float64) Aff { return Aff{A: 1, D: 1, E: x, F: y} }
func AffScale(x, y float64) Aff     { return Aff{A: x, D: y} }
func AffShear(x, y float64) Aff     { return Aff{A: 1, B: x, C: y, D: 1} }
func AffRotate(deg float64) Aff {
	s, c := math.Sincos(deg * math.Pi / 180)
	return Aff{A: c, B: -s, C: s, D: c}
}

// MaxAbsDiff is the largest absolute difference of the six coefficients.
func (m Aff) MaxAbsDiff(n Aff) float64 {
	d := 0.0
	for _, v := range []float64{m.A - n.A, m.B - n.B, m.C - n.C, m.D - n.D, m.E - n.E, m.F - n.F} {
		d = math.Max(d, math.Abs(v))
	}
	return d
}

// Norm is the largest absolute coefficient.
func (m Aff) Norm() float64 {
	d := 0.0
	for _, v := range []float64{m.A, m.B, m.C, m.D, m.E, m.F} {
		d = math.Max(d, math.Abs(v))
	}
	return d
}

// NearestParamMulti is NearestParam made safe for self-approaching curves, cusps and hairpin
// turns: every sample interval that could hide the global minimum (one of its ends is within the
// local arc scale of the best sampled distance) is refined separately.
func NearestParamMulti(s Seg, q Pt, n int) (float64, float64) {
	if !s.IsCurve() {
		return NearestParam(s, q, n)
	}
	ds := make([]float64, n+1)
	ps := make([]Pt, n+1)
	best, bi := math.Inf(1), 0
	for i := 0; i <= n; i++ {
		ps[i] = SegAt(s, float64(i)/float64(n))
		ds[i] = q.Dist(ps[i])
		if ds[i] < best {
			best, bi = ds[i], i
		}
	}
	bt, bd := float64(bi)/float64(n), best
	f := func(t float64) float64 { return q.Dist(SegAt(s, t)) }
	if s.Kind == CmdArc {
		// sampling cannot resolve the tip of a very thin ellipse: also try the point with the same
		// eccentric angle as q (q itself when q is on the ellipse), refined locally
		if t, d, ok := arcProject(s, q); ok && d < bd {
			bt, bd = t, d
		}
	}
	chord := func(i int) float64 {
		if i < 0 || i >= n {
			return 0
		}
		return ps[i].Dist(ps[i+1])
	}
	for i := 0; i < n; i++ {
		loc := chord(i-1) + chord(i) + chord(i+1)
		if math.Min(ds[i], ds[i+1]) > best+loc {
			continue
		}
		if t, d := goldenMin(f, float64(i)/float64(n), float64(i+1)/float64(n)); d < bd {
			bt, bd = t, d
		}
	}
	return bt, bd
}

// arcProject maps q radially (in the ellipse's normalised frame) onto the ellipse of the arc; if
// that point lies on the arc it is refined towards the nearest point within a small bracket.
func arcProject(s Seg, q Pt) (float64, float64, bool) {
	c, th0, dth, rx, ry, _ := ArcGeom(s)
	if dth == 0 {
		return 0, 0, false
	}
	cs, sn := math.Cos(s.Phi), math.Sin(s.Phi)
	dx, dy := q.X-c.X, q.Y-c.Y
	th := math.Atan2((-sn*dx+cs*dy)/ry, (cs*dx+sn*dy)/rx)
	t := arcParamOf(th, th0, dth)
	period := 2 * math.Pi / math.Abs(dth)
	if t > 1 && t-period > -1e-12 {
		t -= period
	}
	if t < 0 && t > -1e-12 {
		t = 0
	}
	if t > 1 && t < 1+1e-12 {
		t = 1
	}
	if t < 0 || t > 1 {
		return 0, 0, false
	}
	f := func(t float64) float64 { return q.Dist(SegAt(s, t)) }
	d := f(t)
	if d == 0 {
		return t, 0, true
	}
	// the nearest arc point is within 2d of this one: search that neighbourhood
	h := 1e-6
	p1 := SegAt(s, math.Min(1, t+h))
	p0 := SegAt(s, math.Max(0, t-h))
	if speed := p1.Dist(p0) / (math.Min(1, t+h) - math.Max(0, t-h)); speed > 0 {
		h = 4 * d / speed
	}
	if tt, dd := goldenMin(f, math.Max(0, t-h), math.Min(1, t+h)); dd < d {
		return tt, dd, true
	}
	return t, d, true
}

func goldenMin(f func(float64) float64, a, b float64) (float64, float64) {
	const g = 0.6180339887498949
	c, d := b-g*(b-a), a+g*(b-a)
	fc, fd := f(c), f(d)
	for i := 0; i < 50; i++ {
		if fc < fd {
			b, d, fd = d, c, fc
			c = b - g*(b-a)
			fc = f(c)
		} else {
			a, c, fc = c, d, fd
			d = a + g*(b-a)
			fd = f(d)
		}
	}
	t := (a + b) / 2
	return t, f(t)
}

// DenseSubpath samples a subpath with n chords per curved segment and also returns an upper
// estimate of the deviation between the true curve and that dense polyline (curve evaluated at
// every chord's mid parameter).
func DenseSubpath(sp Subpath, n int) (pts []Pt, dev float64) {
	pts = append(pts, sp.Start)
	for _, s := range sp.Segs {
		if !s.IsCurve() {
			pts = append(pts, s.P1)
			continue
		}
		sm := SegSample(s, n)
		for i := 0; i < n; i++ {
			mid := SegAt(s, (float64(i)+0.5)/float64(n))
			if d := DistSeg(mid, sm[i], sm[i+1]); d > dev {
				dev = d
			}
		}
		pts = append(pts, sm[1:]...)
	}
	return
}

// ballEntry returns the smallest u in [u0,1] with |a + u(b-a) - v| <= R.
func ballEntry(a, b, v Pt, R, u0 float64) (float64, bool) {
	d := b.Sub(a)
	w := a.Sub(v)
	A := d.Dot(d)
	C := w.Dot(w) - R*R
	if A == 0 {
		return u0, C <= 0
	}
	B := 2 * w.Dot(d)
	disc := B*B - 4*A*C
	if disc < 0 {
		return 0, false
	}
	sq := math.Sqrt(disc)
	u1, u2 := (-B-sq)/(2*A), (-B+sq)/(2*A)
	if u2 < u0 || u1 > 1 {
		return 0, false
	}
	return math.Max(u1, u0), true
}

// OrderedOnCurve checks that the points vs can be assigned, in order, to non-decreasing
// positions along the polyline curve such that each is within R of its position (greedy with
// the smallest feasible position, which is optimal). It returns the index of the first point
// that cannot be placed (-1 if all can) and whether that point is within R of the curve at all
// (i.e. the failure is one of order, not of distance).
func OrderedOnCurve(curve []Pt, vs []Pt, R float64) (bad int, onCurve bool) {
	k, u := 0, 0.0
	for i, v := range vs {
		found := false
		for kk := k; kk+1 < len(curve); kk++ {
			u0 := 0.0
			if kk == k {
				u0 = u
			}
			if uu, ok := ballEntry(curve[kk], curve[kk+1], v, R, u0); ok {
				k, u, found = kk, uu, true
				break
			}
		}
		if len(curve) == 1 && v.Dist(curve[0]) <= R {
			found = true
		}
		if !found {
			for kk := 0; kk+1 < len(curve); kk++ {
				if DistSeg(v, curve[kk], curve[kk+1]) <= R {
					return i, true
				}
			}
			return i, false
		}
	}
	return -1, true
}

// MaxDistToPolyline returns the largest distance from the points ps (assumed to run along the
// polyline q in order) to q, and the index of the worst point. A moving window makes the common
// case linear; whenever the windowed value exceeds limit the point is re-measured against all of q,
// so values above limit are exact.
func MaxDistToPolyline(ps []Pt, q []Pt, limit float64) (float64, int) {
	if len(q) == 1 {
		worst, wi := 0.0, 0
		for i, p := range ps {
			if d := p.Dist(q[0]); d > worst {
				worst, wi = d, i
			}
		}
		return worst, wi
	}
	worst, wi := 0.0, 0
	j := 0
	m := len(q) - 1 // number of segments
	for i, p := range ps {
		best, bj := math.Inf(1), j
		for jj := j - 2; jj <= j+3; jj++ {
			if jj < 0 || jj >= m {
				continue
			}
			if d := DistSeg(p, q[jj], q[jj+1]); d < best {
				best, bj = d, jj
			}
		}
		if best > limit {
			for jj := 0; jj < m; jj++ {
				if d := DistSeg(p, q[jj], q[jj+1]); d < best {
					best, bj = d, jj
				}
			}
		}
		j = bj
		if best > worst {
			worst, wi = best, i
		}
	}
	return worst, wi
}
