package oracle

import "math"

// Brute-force reference for Knuth–Plass line breaking ("Breaking Paragraphs into Lines", 1981).
// Nothing in here is derived from the implementation under test; conventions are the paper's:
//
//   - legal breakpoint (as worded in property C17): a penalty p < +inf, or a glue that directly
//     follows a box and does not directly precede a penalty;
//   - forced break: penalty p <= -inf;
//   - a line from break a to break b consists of the items strictly between them, minus the glue
//     that follows a up to (not including) the next box (TeX's discardable items; penalties in
//     that run are skipped, a forced break cannot occur inside a line), plus the width of b when b is
//     a penalty. Nothing is discarded at the start of the paragraph (the paper's first active
//     node has zero totals);
//   - adjustment ratio r: 0 if L = l; (l-L)/Y if L < l and Y > 0, +inf if Y <= 0; (l-L)/Z if
//     L > l and Z > 0, -inf if Z <= 0;
//   - badness 100|r|^3; demerits (lp+bad+p)^2 for p >= 0, (lp+bad)^2 - p^2 for -inf < p < 0,
//     (lp+bad)^2 for a forced break or a glue break; + alpha when this and the previous break
//     are both flagged; + gamma when the fitness classes (0: r < -1/2, 1: -1/2 <= r <= 1/2,
//     2: 1/2 < r <= 1, 3: r > 1) of adjacent lines differ by more than one; the paragraph start
//     counts as class 1 and as not flagged.

// KP item kinds.
const (
	KPBox = iota
	KPGlue
	KPPenalty
)

// KPItem is a box, glue or penalty.
type KPItem struct {
	Kind    int
	W, Y, Z float64 // width, stretch, shrink
	P       float64 // penalty
	Flagged bool
}

// KPParams are the tunables of the demerits formula.
type KPParams struct {
	Tolerance float64 // upper bound of feasible ratios
	Line      float64 // line penalty
	Flagged   float64 // alpha
	Fitness   float64 // gamma
	Infinity  float64 // |p| >= Infinity is infinite
}

// KPLine is one line of a breaking.
type KPLine struct {
	L, Y, Z float64 // natural width (incl. the width of a penalty at the end), stretch, shrink
	Ratio   float64 // may be +-Inf
	Empty   bool    // no box and no undiscarded glue on the line
}

// KPForced reports whether item i is a forced break.
func KPForced(items []KPItem, i int, p KPParams) bool {
	return items[i].Kind == KPPenalty && items[i].P <= -p.Infinity
}

// KPLegal reports whether item i is a legal breakpoint.
func KPLegal(items []KPItem, i int, p KPParams) bool {
	switch items[i].Kind {
	case KPPenalty:
		return items[i].P < p.Infinity
	case KPGlue:
		if i == 0 || items[i-1].Kind != KPBox {
			return false
		}
		if i+1 < len(items) && items[i+1].Kind == KPPenalty {
			return false
		}
		return true
	}
	return false
}

// KPRatio is the adjustment ratio of a line of natural width L, stretch Y, shrink Z set to width l.
func KPRatio(L, Y, Z, l float64) float64 {
	switch {
	case L == l:
		return 0
	case L < l:
		if Y <= 0 {
			return math.Inf(1)
		}
		return (l - L) / Y
	default:
		if Z <= 0 {
			return math.Inf(-1)
		}
		return (l - L) / Z
	}
}

// KPLineOf computes the line between breaks a and b (a = -1 for the start of the paragraph).
func KPLineOf(items []KPItem, a, b int, width float64) KPLine {
	var ln KPLine
	discarding := a >= 0
	ln.Empty = true
	for i := a + 1; i < b; i++ {
		switch items[i].Kind {
		case KPBox:
			discarding = false
			ln.Empty = false
			ln.L += items[i].W
		case KPGlue:
			if !discarding {
				ln.Empty = false
				ln.L += items[i].W
				ln.Y += items[i].Y
				ln.Z += items[i].Z
			}
		}
	}
	if items[b].Kind == KPPenalty {
		ln.L += items[b].W
	}
	ln.Ratio = KPRatio(ln.L, ln.Y, ln.Z, width)
	return ln
}

// KPFitness is the fitness class of a ratio.
func KPFitness(r float64) int {
	switch {
	case r < -0.5:
		return 0
	case r <= 0.5:
		return 1
	case r <= 1:
		return 2
	}
	return 3
}

// KPLineDemerits is the demerits of one line ending at item b with ratio r, given the fitness
// class and flag of the previous break.
func KPLineDemerits(items []KPItem, b int, r float64, prevFit int, prevFlagged bool, p KPParams) (float64, int) {
	bad := 100 * math.Pow(math.Abs(r), 3)
	it := items[b]
	var d float64
	switch {
	case it.Kind == KPPenalty && it.P >= 0:
		d = (p.Line + bad + it.P) * (p.Line + bad + it.P)
	case it.Kind == KPPenalty && it.P > -p.Infinity:
		d = (p.Line+bad)*(p.Line+bad) - it.P*it.P
	default:
		d = (p.Line + bad) * (p.Line + bad)
	}
	if prevFlagged && it.Kind == KPPenalty && it.Flagged {
		d += p.Flagged
	}
	c := KPFitness(r)
	if c-prevFit > 1 || prevFit-c > 1 {
		d += p.Fitness
	}
	return d, c
}

// KPEval is the evaluation of one complete breaking.
type KPEval struct {
	Lines    []KPLine
	Demerits float64 // meaningful when Feasible
	Feasible bool    // all ratios in [-1, Tolerance]
	Fits     bool    // all ratios >= -1
	MaxRatio float64
	MinRatio float64
}

// KPEvaluate evaluates the breaking given by the strictly increasing item indices breaks.
func KPEvaluate(items []KPItem, breaks []int, width float64, p KPParams) KPEval {
	ev := KPEval{Feasible: true, Fits: true, MaxRatio: math.Inf(-1), MinRatio: math.Inf(1)}
	a, fit, fl := -1, 1, false
	for _, b := range breaks {
		ln := KPLineOf(items, a, b, width)
		ev.Lines = append(ev.Lines, ln)
		ev.MaxRatio = math.Max(ev.MaxRatio, ln.Ratio)
		ev.MinRatio = math.Min(ev.MinRatio, ln.Ratio)
		if ln.Ratio < -1 {
			ev.Fits = false
			ev.Feasible = false
		}
		if ln.Ratio > p.Tolerance {
			ev.Feasible = false
		}
		d, c := KPLineDemerits(items, b, ln.Ratio, fit, fl, p)
		ev.Demerits += d
		a, fit, fl = b, c, items[b].Kind == KPPenalty && items[b].Flagged
	}
	return ev
}

// KPAll is the result of the brute-force enumeration of all complete breakings, i.e. all
// subsets of the legal breakpoints that contain every forced break (the last item must be one).
type KPAll struct {
	Breakings   int64   // number of complete breakings
	Feasible    int64   // … with every ratio in [-1, Tolerance]
	Fitting     int64   // … with every ratio >= -1
	MinDemerits float64 // over the feasible ones
	BestBreaks  []int   // one feasible breaking of minimal demerits
	MinMaxRatio float64 // over the fitting ones: the smallest achievable maximum ratio (may be +Inf)
	BestFitting []int   // one fitting breaking attaining MinMaxRatio
	Boundary    bool    // some candidate line has a ratio within 1e-9 of -1 or Tolerance without being equal
}

// KPEnumerate enumerates every complete breaking.
func KPEnumerate(items []KPItem, width float64, p KPParams) KPAll {
	n := len(items)
	res := KPAll{MinDemerits: math.Inf(1), MinMaxRatio: math.Inf(1)}
	legal := make([]bool, n)
	forced := make([]bool, n)
	for i := range items {
		legal[i] = KPLegal(items, i, p)
		forced[i] = KPForced(items, i, p)
	}
	// line table: tab[a+1][b] is the line from break a (-1 = start) to break b
	tab := make([][]KPLine, n+1)
	for a := -1; a < n; a++ {
		if a >= 0 && !legal[a] {
			continue
		}
		tab[a+1] = make([]KPLine, n)
		for b := a + 1; b < n; b++ {
			if legal[b] {
				ln := KPLineOf(items, a, b, width)
				tab[a+1][b] = ln
				for _, edge := range [2]float64{-1, p.Tolerance} {
					if ln.Ratio != edge && math.Abs(ln.Ratio-edge) < 1e-9 {
						res.Boundary = true
					}
				}
			}
			if forced[b] {
				break
			}
		}
	}
	path := make([]int, 0, n)
	var rec func(a, fit int, fl bool, dem float64, feasible, fits bool, maxR float64)
	rec = func(a, fit int, fl bool, dem float64, feasible, fits bool, maxR float64) {
		for b := a + 1; b < n; b++ {
			if legal[b] {
				ln := tab[a+1][b]
				f2 := feasible && ln.Ratio >= -1 && ln.Ratio <= p.Tolerance
				t2 := fits && ln.Ratio >= -1
				d, c := KPLineDemerits(items, b, ln.Ratio, fit, fl, p)
				path = append(path, b)
				if b == n-1 {
					res.Breakings++
					m := math.Max(maxR, ln.Ratio)
					if t2 {
						res.Fitting++
						if m < res.MinMaxRatio || res.BestFitting == nil {
							res.MinMaxRatio = m
							res.BestFitting = append([]int(nil), path...)
						}
					}
					if f2 {
						res.Feasible++
						if dem+d < res.MinDemerits {
							res.MinDemerits = dem + d
							res.BestBreaks = append([]int(nil), path...)
						}
					}
				} else {
					rec(b, c, items[b].Kind == KPPenalty && items[b].Flagged, dem+d, f2, t2, math.Max(maxR, ln.Ratio))
				}
				path = path[:len(path)-1]
			}
			if forced[b] {
				return // a forced break cannot be skipped
			}
		}
	}
	if n > 0 && forced[n-1] {
		rec(-1, 1, false, 0, true, true, math.Inf(-1))
	}
	return res
}
