// Package oracle is the independent reference geometry used by the checks. It imports nothing
// from canvas: it only understands the documented layout of the path data stream
// (cmd, args..., cmd) and the mathematical definitions of the segment types.
package oracle

import (
	"errors"
	"fmt"
	"math"
)

type Pt struct{ X, Y float64 }

func (a Pt) Add(b Pt) Pt        { return Pt{a.X + b.X, a.Y + b.Y} }
func (a Pt) Sub(b Pt) Pt        { return Pt{a.X - b.X, a.Y - b.Y} }
func (a Pt) Mul(f float64) Pt   { return Pt{a.X * f, a.Y * f} }
func (a Pt) Dot(b Pt) float64   { return a.X*b.X + a.Y*b.Y }
func (a Pt) Cross(b Pt) float64 { return a.X*b.Y - a.Y*b.X }
func (a Pt) Len() float64       { return math.Hypot(a.X, a.Y) }
func (a Pt) Dist(b Pt) float64  { return math.Hypot(a.X-b.X, a.Y-b.Y) }
func Lerp(a, b Pt, t float64) Pt {
	return Pt{a.X + (b.X-a.X)*t, a.Y + (b.Y-a.Y)*t}
}

// Command values of the canvas path data stream (documented in path.go's type comment).
const (
	CmdMove  = 1.0
	CmdLine  = 2.0
	CmdQuad  = 4.0
	CmdCube  = 8.0
	CmdArc   = 16.0
	CmdClose = 32.0
)

// Seg is one drawn segment.
type Seg struct {
	Kind           float64 // CmdLine, CmdQuad, CmdCube, CmdArc, CmdClose (a line)
	P0, C1, C2, P1 Pt      // start, control points, end
	Rx, Ry, Phi    float64 // arcs
	Large, Sweep   bool
}

// Subpath is a MoveTo followed by segments.
type Subpath struct {
	Start  Pt
	Segs   []Seg
	Closed bool
}

func cmdLen(c float64) int {
	switch c {
	case CmdMove, CmdLine, CmdClose:
		return 4
	case CmdQuad:
		return 6
	case CmdCube, CmdArc:
		return 8
	}
	return 0
}

// Decode parses a raw data stream into subpaths. It is strict: any structural problem is an
// error (the C10 validator builds on this).
func Decode(d []float64) ([]Subpath, error) {
	var sps []Subpath
	var cur *Subpath
	pos := Pt{}
	i := 0
	for i < len(d) {
		c := d[i]
		n := cmdLen(c)
		if n == 0 {
			return sps, fmt.Errorf("bad command %v at %d", c, i)
		}
		if i+n > len(d) {
			return sps, fmt.Errorf("truncated command at %d", i)
		}
		if d[i+n-1] != c {
			return sps, fmt.Errorf("command %v at %d not mirrored at its end (%v)", c, i, d[i+n-1])
		}
		for k := i + 1; k < i+n-1; k++ {
			// comparisons with NaN are false: a non-finite number must not get as far as a tolerance test
			if math.IsNaN(d[k]) || math.IsInf(d[k], 0) {
				return sps, fmt.Errorf("non-finite number %v in the command at %d", d[k], i)
			}
		}
		end := Pt{d[i+n-3], d[i+n-2]}
		if c == CmdMove {
			sps = append(sps, Subpath{Start: end})
			cur = &sps[len(sps)-1]
			pos = end
			i += n
			continue
		}
		if cur == nil {
			return sps, errors.New("segment before first MoveTo")
		}
		if cur.Closed {
			return sps, fmt.Errorf("segment at %d after Close without MoveTo", i)
		}
		s := Seg{Kind: c, P0: pos, P1: end}
		switch c {
		case CmdQuad:
			s.C1 = Pt{d[i+1], d[i+2]}
		case CmdCube:
			s.C1 = Pt{d[i+1], d[i+2]}
			s.C2 = Pt{d[i+3], d[i+4]}
		case CmdArc:
			s.Rx, s.Ry, s.Phi = d[i+1], d[i+2], d[i+3]
			f := d[i+4]
			if f != 0 && f != 1 && f != 2 && f != 3 {
				return sps, fmt.Errorf("bad arc flags %v at %d", f, i)
			}
			s.Large = f == 1 || f == 3
			s.Sweep = f == 2 || f == 3
		case CmdClose:
			cur.Closed = true
		}
		cur.Segs = append(cur.Segs, s)
		pos = end
		i += n
	}
	return sps, nil
}

// ArcCenter converts the endpoint parameterisation of an elliptical arc to the centre
// parameterisation following the W3C SVG implementation notes (F.6.5), including the
// radii correction (F.6.6). Returns centre, start angle, delta angle, and corrected radii.
func ArcCenter(p0 Pt, rx, ry, phi float64, large, sweep bool, p1 Pt) (c Pt, th0, dth, rxo, ryo float64) {
	rx, ry = math.Abs(rx), math.Abs(ry)
	cs, sn := math.Cos(phi), math.Sin(phi)
	dx, dy := (p0.X-p1.X)/2, (p0.Y-p1.Y)/2
	x1 := cs*dx + sn*dy
	y1 := -sn*dx + cs*dy
	lam := x1*x1/(rx*rx) + y1*y1/(ry*ry)
	if lam > 1 {
		s := math.Sqrt(lam)
		rx *= s
		ry *= s
	}
	num := rx*rx*ry*ry - rx*rx*y1*y1 - ry*ry*x1*x1
	den := rx*rx*y1*y1 + ry*ry*x1*x1
	k := 0.0
	if den != 0 && num > 0 {
		k = math.Sqrt(num / den)
	}
	if large == sweep {
		k = -k
	}
	cx1 := k * rx * y1 / ry
	cy1 := -k * ry * x1 / rx
	c = Pt{cs*cx1 - sn*cy1 + (p0.X+p1.X)/2, sn*cx1 + cs*cy1 + (p0.Y+p1.Y)/2}
	ang := func(ux, uy, vx, vy float64) float64 {
		a := math.Atan2(ux*vy-uy*vx, ux*vx+uy*vy)
		return a
	}
	ux, uy := (x1-cx1)/rx, (y1-cy1)/ry
	vx, vy := (-x1-cx1)/rx, (-y1-cy1)/ry
	th0 = ang(1, 0, ux, uy)
	dth = ang(ux, uy, vx, vy)
	if !sweep && dth > 0 {
		dth -= 2 * math.Pi
	} else if sweep && dth < 0 {
		dth += 2 * math.Pi
	}
	return c, th0, dth, rx, ry
}

// EllipseAt evaluates the rotated ellipse at angle th.
func EllipseAt(c Pt, rx, ry, phi, th float64) Pt {
	cs, sn := math.Cos(phi), math.Sin(phi)
	x, y := rx*math.Cos(th), ry*math.Sin(th)
	return Pt{c.X + cs*x - sn*y, c.Y + sn*x + cs*y}
}

// At evaluates the segment at parameter t in [0,1].
func (s Seg) At(t float64) Pt {
	switch s.Kind {
	case CmdQuad:
		a := Lerp(s.P0, s.C1, t)
		b := Lerp(s.C1, s.P1, t)
		return Lerp(a, b, t)
	case CmdCube:
		a := Lerp(s.P0, s.C1, t)
		b := Lerp(s.C1, s.C2, t)
		c := Lerp(s.C2, s.P1, t)
		d := Lerp(a, b, t)
		e := Lerp(b, c, t)
		return Lerp(d, e, t)
	case CmdArc:
		if t == 0 {
			return s.P0
		} else if t == 1 {
			return s.P1
		}
		c, th0, dth, rx, ry := ArcCenter(s.P0, s.Rx, s.Ry, s.Phi, s.Large, s.Sweep, s.P1)
		return EllipseAt(c, rx, ry, s.Phi, th0+t*dth)
	}
	return Lerp(s.P0, s.P1, t)
}

// Sample returns n+1 points of the segment (n=1 for lines).
func (s Seg) Sample(n int) []Pt {
	if s.Kind == CmdLine || s.Kind == CmdClose {
		return []Pt{s.P0, s.P1}
	}
	pts := make([]Pt, 0, n+1)
	if s.Kind == CmdArc {
		c, th0, dth, rx, ry := ArcCenter(s.P0, s.Rx, s.Ry, s.Phi, s.Large, s.Sweep, s.P1)
		pts = append(pts, s.P0)
		for i := 1; i < n; i++ {
			pts = append(pts, EllipseAt(c, rx, ry, s.Phi, th0+dth*float64(i)/float64(n)))
		}
		return append(pts, s.P1)
	}
	for i := 0; i <= n; i++ {
		pts = append(pts, s.At(float64(i)/float64(n)))
	}
	return pts
}

// Polyline is an open or closed sequence of points (closing edge implicit when Closed).
type Polyline struct {
	P      []Pt
	Closed bool
}

// Dense flattens each subpath with n samples per curved segment.
func Dense(sps []Subpath, n int) []Polyline {
	out := make([]Polyline, 0, len(sps))
	for _, sp := range sps {
		pl := Polyline{P: []Pt{sp.Start}, Closed: sp.Closed}
		for _, s := range sp.Segs {
			pts := s.Sample(n)
			pl.P = append(pl.P, pts[1:]...)
		}
		out = append(out, pl)
	}
	return out
}

// DenseData = Dense(Decode(d)); panics on malformed data (callers validate first).
func DenseData(d []float64, n int) []Polyline {
	sps, err := Decode(d)
	if err != nil {
		panic("oracle: malformed path data: " + err.Error())
	}
	return Dense(sps, n)
}

// Winding is the winding number of the implicitly closed polylines around q (half-open
// crossing rule: an edge counts when it spans y in [min,max) ). Exact for points not on an edge.
func Winding(pls []Polyline, q Pt) int {
	w := 0
	for _, pl := range pls {
		n := len(pl.P)
		if n < 2 {
			continue
		}
		for i := 0; i < n; i++ {
			a, b := pl.P[i], pl.P[(i+1)%n]
			if i == n-1 && a == b {
				continue
			}
			if a.Y <= q.Y {
				if b.Y > q.Y && orient(a, b, q) > 0 {
					w++
				}
			} else if b.Y <= q.Y && orient(a, b, q) < 0 {
				w--
			}
		}
	}
	return w
}

func orient(a, b, c Pt) float64 {
	return (b.X-a.X)*(c.Y-a.Y) - (c.X-a.X)*(b.Y-a.Y)
}

// Orient is the signed doubled area of triangle abc.
func Orient(a, b, c Pt) float64 { return orient(a, b, c) }

// DistSeg is the distance from q to segment ab.
func DistSeg(q, a, b Pt) float64 {
	ab := b.Sub(a)
	l2 := ab.Dot(ab)
	if l2 == 0 {
		return q.Dist(a)
	}
	t := q.Sub(a).Dot(ab) / l2
	if t < 0 {
		t = 0
	} else if t > 1 {
		t = 1
	}
	return q.Dist(a.Add(ab.Mul(t)))
}

// Dist is the distance from q to the polylines; implicit says whether open polylines are
// treated as closed (the closing edge counts as boundary).
func Dist(pls []Polyline, q Pt, implicit bool) float64 {
	best := math.Inf(1)
	for _, pl := range pls {
		n := len(pl.P)
		if n == 1 {
			best = math.Min(best, q.Dist(pl.P[0]))
		}
		m := n - 1
		if (pl.Closed || implicit) && n > 1 {
			m = n
		}
		for i := 0; i < m; i++ {
			d := DistSeg(q, pl.P[i], pl.P[(i+1)%n])
			if d < best {
				best = d
			}
		}
	}
	return best
}

// Area is the signed shoelace area of the implicitly closed polylines (sum).
func Area(pls []Polyline) float64 {
	a := 0.0
	for _, pl := range pls {
		n := len(pl.P)
		for i := 0; i < n; i++ {
			p, q := pl.P[i], pl.P[(i+1)%n]
			a += p.X*q.Y - q.X*p.Y
		}
	}
	return a / 2
}

// AreaOne is the signed area of one polyline.
func AreaOne(pl Polyline) float64 { return Area([]Polyline{pl}) }

// Length is the arc length of the polylines (closing edge only when Closed).
func Length(pls []Polyline) float64 {
	l := 0.0
	for _, pl := range pls {
		n := len(pl.P)
		for i := 0; i+1 < n; i++ {
			l += pl.P[i].Dist(pl.P[i+1])
		}
		if pl.Closed && n > 1 && pl.P[n-1] != pl.P[0] {
			l += pl.P[n-1].Dist(pl.P[0])
		}
	}
	return l
}

// BBox returns min and max of all points.
func BBox(pls []Polyline) (lo, hi Pt, ok bool) {
	lo = Pt{math.Inf(1), math.Inf(1)}
	hi = Pt{math.Inf(-1), math.Inf(-1)}
	for _, pl := range pls {
		for _, p := range pl.P {
			ok = true
			lo.X, lo.Y = math.Min(lo.X, p.X), math.Min(lo.Y, p.Y)
			hi.X, hi.Y = math.Max(hi.X, p.X), math.Max(hi.Y, p.Y)
		}
	}
	return
}

// SegsProperlyCross reports whether open segments ab and cd cross at a single interior point
// of both, with margin eps on the orientation predicates (scaled by the segment lengths).
func SegsProperlyCross(a, b, c, d Pt, eps float64) bool {
	l1, l2 := a.Dist(b), c.Dist(d)
	if l1 == 0 || l2 == 0 {
		return false
	}
	o1 := orient(a, b, c) / l1
	o2 := orient(a, b, d) / l1
	o3 := orient(c, d, a) / l2
	o4 := orient(c, d, b) / l2
	return ((o1 > eps && o2 < -eps) || (o1 < -eps && o2 > eps)) && ((o3 > eps && o4 < -eps) || (o3 < -eps && o4 > eps))
}

// HausdorffOneSided returns max over points of a (vertices plus k interior points per edge)
// of the distance to polyline set b.
func HausdorffOneSided(a, b []Polyline, k int, implicit bool) float64 {
	worst := 0.0
	for _, pl := range a {
		n := len(pl.P)
		m := n - 1
		if (pl.Closed || implicit) && n > 1 {
			m = n
		}
		if n == 1 {
			worst = math.Max(worst, Dist(b, pl.P[0], implicit))
		}
		for i := 0; i < m; i++ {
			p, q := pl.P[i], pl.P[(i+1)%n]
			for j := 0; j <= k; j++ {
				d := Dist(b, Lerp(p, q, float64(j)/float64(k+1)), implicit)
				if d > worst {
					worst = d
				}
			}
		}
	}
	return worst
}
