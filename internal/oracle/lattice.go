package oracle

import (
	"fmt"
	"math"
	"strconv"
	"strings"
)

// Digits decodes index i in mixed radix (first radix varies slowest).
func Digits(i int64, radices ...int) []int {
	out := make([]int, len(radices))
	for k := len(radices) - 1; k >= 0; k-- {
		out[k] = int(i % int64(radices[k]))
		i /= int64(radices[k])
	}
	return out
}

// Prod is the product of the radices.
func Prod(radices ...int) int64 {
	n := int64(1)
	for _, r := range radices {
		n *= int64(r)
	}
	return n
}

// Lattice returns the k×k integer lattice points, row-major ((0,0),(1,0),…).
func Lattice(k int) []Pt {
	pts := make([]Pt, 0, k*k)
	for y := 0; y < k; y++ {
		for x := 0; x < k; x++ {
			pts = append(pts, Pt{float64(x), float64(y)})
		}
	}
	return pts
}

// Contours returns every ordered n-tuple of pairwise distinct points of pts, simplest first.
// Degenerate (collinear, self-crossing) tuples are included on purpose.
func Contours(pts []Pt, n int) [][]Pt {
	var out [][]Pt
	idx := make([]int, n)
	var rec func(k int)
	rec = func(k int) {
		if k == n {
			c := make([]Pt, n)
			for i, j := range idx {
				c[i] = pts[j]
			}
			out = append(out, c)
			return
		}
	next:
		for j := range pts {
			for _, u := range idx[:k] {
				if u == j {
					continue next
				}
			}
			idx[k] = j
			rec(k + 1)
		}
	}
	rec(0)
	return out
}

// ContoursModRotation keeps one representative per cyclic rotation of the start vertex
// (the one starting at the smallest point index); orientation is kept.
func ContoursModRotation(pts []Pt, n int) [][]Pt {
	index := map[Pt]int{}
	for i, p := range pts {
		index[p] = i
	}
	var out [][]Pt
	for _, c := range Contours(pts, n) {
		m := index[c[0]]
		ok := true
		for _, p := range c[1:] {
			if index[p] < m {
				ok = false
				break
			}
		}
		if ok {
			out = append(out, c)
		}
	}
	return out
}

// ClosedData builds the raw path data stream M p0 L p1 … z for each contour.
func ClosedData(contours ...[]Pt) []float64 {
	var d []float64
	for _, c := range contours {
		if len(c) < 2 {
			continue
		}
		d = append(d, CmdMove, c[0].X, c[0].Y, CmdMove)
		for _, p := range c[1:] {
			d = append(d, CmdLine, p.X, p.Y, CmdLine)
		}
		d = append(d, CmdClose, c[0].X, c[0].Y, CmdClose)
	}
	return d
}

// OpenData builds M p0 L p1 … (no close).
func OpenData(c []Pt) []float64 {
	d := []float64{CmdMove, c[0].X, c[0].Y, CmdMove}
	for _, p := range c[1:] {
		d = append(d, CmdLine, p.X, p.Y, CmdLine)
	}
	return d
}

// Fmt renders raw path data as an SVG-like string (readable replays).
func Fmt(d []float64) string {
	var sb strings.Builder
	i := 0
	// 12 significant digits when that is the exact value (lattice data), all digits otherwise
	// (a vertex one ulp from a lattice point must not print like the lattice point)
	num := func(v float64) string {
		s := fmt.Sprintf("%.12g", v)
		if w, err := strconv.ParseFloat(s, 64); err != nil || w != v {
			s = strconv.FormatFloat(v, 'g', -1, 64)
		}
		return s
	}
	for i < len(d) {
		c := d[i]
		n := cmdLen(c)
		if n == 0 || i+n > len(d) {
			sb.WriteString(fmt.Sprintf("?%v", d[i:]))
			break
		}
		switch c {
		case CmdMove:
			sb.WriteString("M" + num(d[i+1]) + " " + num(d[i+2]))
		case CmdLine:
			sb.WriteString("L" + num(d[i+1]) + " " + num(d[i+2]))
		case CmdQuad:
			sb.WriteString("Q" + num(d[i+1]) + " " + num(d[i+2]) + " " + num(d[i+3]) + " " + num(d[i+4]))
		case CmdCube:
			sb.WriteString("C" + num(d[i+1]) + " " + num(d[i+2]) + " " + num(d[i+3]) + " " + num(d[i+4]) + " " + num(d[i+5]) + " " + num(d[i+6]))
		case CmdArc:
			l, s := 0, 0
			if d[i+4] == 1 || d[i+4] == 3 {
				l = 1
			}
			if d[i+4] == 2 || d[i+4] == 3 {
				s = 1
			}
			sb.WriteString(fmt.Sprintf("A%s %s %s %d %d %s %s", num(d[i+1]), num(d[i+2]), num(d[i+3]*180/math.Pi), l, s, num(d[i+5]), num(d[i+6])))
		case CmdClose:
			sb.WriteString("z")
		}
		i += n
	}
	return sb.String()
}

// SegIntersection returns the intersection point of segments ab and cd if they intersect in
// exactly one point (not parallel).
func SegIntersection(a, b, c, d Pt) (Pt, bool) {
	r := b.Sub(a)
	s := d.Sub(c)
	den := r.Cross(s)
	if den == 0 {
		return Pt{}, false
	}
	t := c.Sub(a).Cross(s) / den
	u := c.Sub(a).Cross(r) / den
	if t < 0 || t > 1 || u < 0 || u > 1 {
		return Pt{}, false
	}
	return a.Add(r.Mul(t)), true
}

// ArrangementSamples returns probe points on both sides of every piece of every edge of the
// polylines (edges are cut at all mutual intersection points and at all vertices lying on
// them), at normal distance eta from the piece's midpoint. Every face of the arrangement
// that is wider than eta at some bounding piece's midpoint receives a probe. The points depend only on
// the inputs.
func ArrangementSamples(pls []Polyline, eta float64) []Pt {
	type edge struct{ a, b Pt }
	var es []edge
	for _, pl := range pls {
		n := len(pl.P)
		for i := 0; i < n; i++ {
			a, b := pl.P[i], pl.P[(i+1)%n]
			if a != b {
				es = append(es, edge{a, b})
			}
		}
	}
	var out []Pt
	for i, e := range es {
		ts := []float64{0, 1}
		d := e.b.Sub(e.a)
		l2 := d.Dot(d)
		for j, f := range es {
			if i == j {
				continue
			}
			if z, ok := SegIntersection(e.a, e.b, f.a, f.b); ok {
				ts = append(ts, z.Sub(e.a).Dot(d)/l2)
			}
			// endpoints of f lying on e (collinear overlaps, T-junctions)
			for _, v := range []Pt{f.a, f.b} {
				if math.Abs(orient(e.a, e.b, v)) <= 1e-12*math.Sqrt(l2) {
					t := v.Sub(e.a).Dot(d) / l2
					if t > 0 && t < 1 {
						ts = append(ts, t)
					}
				}
			}
		}
		sortFloats(ts)
		nrm := Pt{-d.Y, d.X}.Mul(1 / math.Sqrt(l2))
		for k := 0; k+1 < len(ts); k++ {
			if ts[k+1]-ts[k] < 1e-9 {
				continue
			}
			m := e.a.Add(d.Mul((ts[k] + ts[k+1]) / 2))
			out = append(out, m.Add(nrm.Mul(eta)), m.Sub(nrm.Mul(eta)))
		}
	}
	return out
}

func sortFloats(a []float64) {
	for i := 1; i < len(a); i++ {
		for j := i; j > 0 && a[j] < a[j-1]; j-- {
			a[j], a[j-1] = a[j-1], a[j]
		}
	}
}

// GridSamples returns an offset grid over [lo-pad, hi+pad] with the given step; the shifts
// keep the points off every lattice line.
func GridSamples(lo, hi Pt, pad, step float64) []Pt {
	var out []Pt
	for y := lo.Y - pad + 0.1234*step; y < hi.Y+pad; y += step {
		for x := lo.X - pad + 0.1618*step; x < hi.X+pad; x += step {
			out = append(out, Pt{x, y})
		}
	}
	return out
}

// WalksModRotation returns every closed walk of n steps over pts in which consecutive vertices
// (cyclically) differ and at least one vertex is visited more than once (the walks Contours leaves
// out: edges traversed two or more times, figure-eights through a vertex, spikes), one
// representative per cyclic rotation (the lexicographically smallest index sequence).
func WalksModRotation(pts []Pt, n int) [][]Pt {
	var out [][]Pt
	idx := make([]int, n)
	minimalRotation := func() bool {
		for r := 1; r < n; r++ {
			for k := 0; k < n; k++ {
				a, b := idx[k], idx[(k+r)%n]
				if b < a {
					return false
				} else if a < b {
					break
				}
			}
		}
		return true
	}
	var rec func(k int)
	rec = func(k int) {
		if k == n {
			if idx[n-1] == idx[0] || !minimalRotation() {
				return
			}
			seen := map[int]bool{}
			repeat := false
			for _, j := range idx {
				if seen[j] {
					repeat = true
					break
				}
				seen[j] = true
			}
			if !repeat {
				return
			}
			c := make([]Pt, n)
			for i, j := range idx {
				c[i] = pts[j]
			}
			out = append(out, c)
			return
		}
		for j := range pts {
			if k > 0 && (idx[k-1] == j || j < idx[0]) {
				continue
			}
			idx[k] = j
			rec(k + 1)
		}
	}
	rec(0)
	return out
}
