package oracle

import "math"

// DashModel is the reference model of a dash pattern, written from the doc comment of
// Path.Dash and the SVG/PDF definition of stroke-dasharray/dashoffset: the elements alternate
// dash, gap, dash, …; an odd-length array is used twice in sequence; the array repeats
// cyclically; the pattern position at the start of the (sub)path is offset (a negative offset
// therefore moves the start of the pattern that far INTO the path). It returns the maximal
// drawn intervals [a,b] (b>a) of the arc-length range [0,length], in increasing order, and the
// pattern's switching points inside [0,length] (for the caller's ambiguity guards).
// Zero-length dashes draw nothing, zero-length gaps join their neighbours. An empty array
// draws everything; an array whose sum is zero draws nothing.
func DashModel(offset float64, d []float64, length float64) (iv [][2]float64, switches []float64) {
	if len(d) == 0 {
		return [][2]float64{{0, length}}, nil
	}
	if len(d)%2 == 1 {
		d = append(append([]float64{}, d...), d...)
	}
	cycle := 0.0
	for _, v := range d {
		cycle += v
	}
	if !(cycle > 0) {
		return nil, nil
	}
	x := -math.Mod(offset, cycle) // path position at which element 0 starts
	if x > 0 {
		x -= cycle
	}
	for i := 0; x < length; i = (i + 1) % len(d) {
		a, b := x, x+d[i]
		x = b
		if b >= 0 && b <= length {
			switches = append(switches, b)
		}
		if i%2 == 1 || b <= 0 || b <= a {
			continue
		}
		a, b = math.Max(a, 0), math.Min(b, length)
		if n := len(iv); n > 0 && iv[n-1][1] >= a {
			iv[n-1][1] = b // the gap in between had length zero
		} else if b > a {
			iv = append(iv, [2]float64{a, b})
		}
	}
	return iv, switches
}

// ArcPath is one subpath flattened densely, with cumulative arc length and the arc-length
// extent of every original segment.
type ArcPath struct {
	P        []Pt
	S        []float64 // S[i] = arc length at P[i]
	SegS     []float64 // SegS[j] = arc length at the start of segment j; SegS[len] = L
	SegCurve []bool    // segment j is a Bézier or an arc
	SegKind  []float64 // command of segment j
	Closed   bool
	L        float64
}

// NewArcPath flattens sp with n chords per curved segment.
func NewArcPath(sp Subpath, n int) *ArcPath {
	a := &ArcPath{P: []Pt{sp.Start}, S: []float64{0}, Closed: sp.Closed}
	for _, s := range sp.Segs {
		a.SegS = append(a.SegS, a.L)
		a.SegCurve = append(a.SegCurve, s.Kind == CmdQuad || s.Kind == CmdCube || s.Kind == CmdArc)
		a.SegKind = append(a.SegKind, s.Kind)
		pts := s.Sample(n)
		for _, p := range pts[1:] {
			a.L += a.P[len(a.P)-1].Dist(p)
			a.P = append(a.P, p)
			a.S = append(a.S, a.L)
		}
	}
	a.SegS = append(a.SegS, a.L)
	return a
}

// At is the point at arc length s (clamped to [0,L]).
func (a *ArcPath) At(s float64) Pt {
	if s <= 0 {
		return a.P[0]
	}
	if s >= a.L {
		return a.P[len(a.P)-1]
	}
	lo, hi := 0, len(a.S)-1
	for hi-lo > 1 {
		m := (lo + hi) / 2
		if a.S[m] <= s {
			lo = m
		} else {
			hi = m
		}
	}
	if a.S[hi] == a.S[lo] {
		return a.P[lo]
	}
	return Lerp(a.P[lo], a.P[hi], (s-a.S[lo])/(a.S[hi]-a.S[lo]))
}

// CycDist is |s-t| on [0,L], or on the circle of circumference L when the subpath is closed.
func (a *ArcPath) CycDist(s, t float64) float64 {
	d := math.Abs(s - t)
	if a.Closed && a.L > 0 {
		d = math.Mod(d, a.L)
		d = math.Min(d, a.L-d)
	}
	return d
}

// Locate projects q on every chord that passes within tol of q and returns, among those
// projections, the arc length closest to near (cyclically for closed subpaths), plus the
// distance of q to the whole polyline. ok is false when q is farther than tol from the path.
func (a *ArcPath) Locate(q Pt, near, tol float64) (s, dist float64, ok bool) {
	dist = math.Inf(1)
	best := math.Inf(1)
	if len(a.P) == 1 {
		dist = q.Dist(a.P[0])
		return 0, dist, dist <= tol
	}
	for i := 0; i+1 < len(a.P); i++ {
		p0, p1 := a.P[i], a.P[i+1]
		ab := p1.Sub(p0)
		l2 := ab.Dot(ab)
		t := 0.0
		if l2 > 0 {
			t = math.Max(0, math.Min(1, q.Sub(p0).Dot(ab)/l2))
		}
		dd := q.Dist(p0.Add(ab.Mul(t)))
		if dd < dist {
			dist = dd
		}
		if dd <= tol {
			sc := a.S[i] + t*(a.S[i+1]-a.S[i])
			if c := a.CycDist(sc, near); c < best {
				best, s, ok = c, sc, true
			}
		}
	}
	return s, dist, ok
}

// InWindow reports whether q lies within tol of the part of the path between arc lengths lo
// and hi (lo > hi means the window wraps over the closing point of a closed subpath).
func (a *ArcPath) InWindow(q Pt, lo, hi, tol float64) bool {
	in := func(s0, s1 float64) bool { // chord [s0,s1] meets the window
		if lo <= hi {
			return s1 >= lo && s0 <= hi
		}
		return s1 >= lo || s0 <= hi
	}
	for i := 0; i+1 < len(a.P); i++ {
		if !in(a.S[i], a.S[i+1]) {
			continue
		}
		if DistSeg(q, a.P[i], a.P[i+1]) <= tol {
			return true
		}
	}
	return false
}

// SegAt returns the index of the segment containing arc length s.
func (a *ArcPath) SegAt(s float64) int {
	for j := len(a.SegKind) - 1; j > 0; j-- {
		if a.SegS[j] <= s {
			return j
		}
	}
	return 0
}

// CurveTol is the arc-length tolerance for a position s on the subpath: rel·max(L,1) for the
// straight part plus, for every curved segment that starts before s, max(1 % of its length,
// 1e-3) - quadratic Beziers: max(1e-4 of the length, 1e-5) - (positions behind a curve inherit
// the error of the curve's length).
func (a *ArcPath) CurveTol(s, rel float64) float64 {
	t := rel * math.Max(a.L, 1)
	for j, c := range a.SegCurve {
		if c && a.SegS[j] < s+1e-6 {
			if a.SegKind[j] == CmdQuad {
				// the length of a quadratic Bezier has a closed form, which SplitAt inverts (F113): 1e-4
				t += math.Max(1e-4*(a.SegS[j+1]-a.SegS[j]), 1e-5)
				continue
			}
			t += math.Max(0.01*(a.SegS[j+1]-a.SegS[j]), 1e-3)
		}
	}
	return t
}
