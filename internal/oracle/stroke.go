package oracle

import "math"

// Reference model of the stroked region, written from the definitions in SVG 1.1 §11.4 /
// SVG 2 §13.5 and PDF 32000-1 §8.4.3: the stroke of a subpath is the union of
//
//   - for every segment, the points on a normal of the segment at distance < w/2 (for a line:
//     the rectangle of width w around it),
//   - for every vertex between two segments (and the start vertex of a closed subpath) the join
//     shape on the outer side of the bend: round = circular sector of radius w/2; bevel = the
//     triangle (vertex, outer corner of the incoming segment, outer corner of the outgoing
//     segment); miter = the bevel triangle extended to the intersection of the outer edges,
//     falling back to bevel when 1/sin(theta/2) exceeds the miter limit; miter-clip = the miter
//     cut at distance limit*w/2 from the vertex by a line perpendicular to the bisector,
//   - for every end of an open subpath the cap: butt = nothing, round = half disc of radius
//     w/2, square = rectangle w x w/2 beyond the end point.
//
// Classify is three-valued; which of the three it returns depends only on the input path,
// the stroke parameters and the probe.

// Cap and join kinds.
const (
	CapButt = iota
	CapRound
	CapSquare
)
const (
	JoinBevel = iota
	JoinRound
	JoinMiter     // bevel beyond the limit
	JoinMiterClip // clipped at the limit
	JoinArcs      // bevel beyond the limit
	JoinArcsClip  // clipped at the limit
)

// StrokeSpec holds the stroke parameters and the decision margin.
type StrokeSpec struct {
	W      float64
	Cap    int
	Join   int
	Limit  float64 // miter limit (ratio to w/2 of the distance vertex-tip)
	Margin float64 // tol + delta
}

type strokeSeg struct {
	pts    []Pt
	t0, t1 Pt // unit tangents at the start and at the end
	curved bool
	// circle: the segment is an arc of a circle (centre c, radius rad); a straight segment has neither
	circle bool
	c      Pt
	rad    float64
}

type strokeSub struct {
	segs   []strokeSeg
	closed bool
}

// StrokeModel is the input path prepared for Classify.
type StrokeModel struct {
	subs []strokeSub
	Pls  []Polyline // dense flattening (for distances and bounding boxes)
}

func unit(v Pt) Pt {
	l := v.Len()
	if l == 0 {
		return Pt{}
	}
	return v.Mul(1 / l)
}

// NewStrokeModel prepares a path; n chords per curved segment. Zero-length segments are dropped
// (they have no direction; the SVG definition gives them no stroke except through caps).
func NewStrokeModel(sps []Subpath, n int) *StrokeModel {
	m := &StrokeModel{}
	for _, sp := range sps {
		sub := strokeSub{closed: sp.Closed}
		pl := Polyline{P: []Pt{sp.Start}}
		for _, s := range sp.Segs {
			pts := s.Sample(n)
			pl.P = append(pl.P, pts[1:]...)
			if s.P0 == s.P1 && (s.Kind == CmdLine || s.Kind == CmdClose) {
				continue
			}
			sg := strokeSeg{pts: pts, curved: s.Kind != CmdLine && s.Kind != CmdClose}
			if s.Kind == CmdArc && s.Rx == s.Ry {
				if c, _, _, rx, _, st := ArcGeom(s); st == ArcOK || st == ArcHalf {
					sg.circle, sg.c, sg.rad = true, c, rx
				}
			}
			if sg.curved {
				const h = 1e-6
				sg.t0 = unit(s.At(h).Sub(s.P0))
				sg.t1 = unit(s.P1.Sub(s.At(1 - h)))
			} else {
				sg.t0 = unit(s.P1.Sub(s.P0))
				sg.t1 = sg.t0
			}
			sub.segs = append(sub.segs, sg)
		}
		m.subs = append(m.subs, sub)
		m.Pls = append(m.Pls, pl)
	}
	return m
}

// closest returns the distance from q to the segment's chain and whether the closest point is
// strictly interior to the segment (not one of its two end points).
func (s *strokeSeg) closest(q Pt) (d float64, interior bool) {
	d = math.Inf(1)
	n := len(s.pts) - 1
	for i := 0; i < n; i++ {
		a, b := s.pts[i], s.pts[i+1]
		ab := b.Sub(a)
		l2 := ab.Dot(ab)
		if l2 == 0 {
			continue
		}
		t := q.Sub(a).Dot(ab) / l2
		in := true
		if t <= 0 {
			t = 0
			in = i > 0
		} else if t >= 1 {
			t = 1
			in = i < n-1
		}
		if dd := q.Dist(a.Add(ab.Mul(t))); dd < d {
			d, interior = dd, in
		}
	}
	return
}

func rightNormal(t Pt) Pt { return Pt{t.Y, -t.X} }

// joinAllowance is the radius around a join vertex inside which the statement allows stroke
// beyond the w/2-neighbourhood.
func joinAllowance(spec StrokeSpec) float64 {
	r := spec.W / 2
	switch spec.Join {
	case JoinMiter, JoinArcs:
		return spec.Limit * r
	case JoinMiterClip, JoinArcsClip:
		// the clip edge lies at distance limit*r along the bisector and is at most w wide
		return r * math.Sqrt(spec.Limit*spec.Limit+1)
	}
	return 0
}

// Classify returns +1 when the statement requires s to be inside the stroke, -1 when it
// requires s to be outside, 0 when s is too close to a boundary (or inside a region about which
// the statement says nothing). why names the feature that decided.
func (m *StrokeModel) Classify(s Pt, spec StrokeSpec) (v int, why string) {
	r := spec.W / 2
	mg := spec.Margin
	in := r - mg // must-in radius
	farFromPath := true
	allowed := false // inside an allowed join/cap extension
	for _, sub := range m.subs {
		ns := len(sub.segs)
		for j := range sub.segs {
			sg := &sub.segs[j]
			d, interior := sg.closest(s)
			if d <= r+mg {
				farFromPath = false
			}
			if interior && d < in && spec.Cap == CapButt && !sub.closed {
				// the end edge of the rectangle at a butt end is a boundary of the stroke:
				// stay the margin away from it
				if j == 0 && s.Sub(sg.pts[0]).Dot(sg.t0) < mg {
					interior = false
				}
				if j == ns-1 && sg.pts[len(sg.pts)-1].Sub(s).Dot(sg.t1) < mg {
					interior = false
				}
			}
			if interior && d < in {
				if spec.Cap == CapButt && !sub.closed && m.beyondButtCut(s, r+mg) {
					// in the rectangle of a segment, but also past the cut of a butt cap and
					// within w/2 of that end: reported under its own name because the statement's
					// "(except beyond the cut of a butt cap)" can be read to exempt it
					return 1, "segment-beyond-butt-cut"
				}
				return 1, "segment"
			}
		}
		// joins
		for j := 0; j < ns; j++ {
			var a, b *strokeSeg
			if j+1 < ns {
				a, b = &sub.segs[j], &sub.segs[j+1]
			} else if sub.closed && ns > 0 {
				a, b = &sub.segs[ns-1], &sub.segs[0]
			} else {
				continue
			}
			if ns == 1 && !a.curved {
				continue // a closed subpath of one line has no direction change worth a join
			}
			V := a.pts[len(a.pts)-1]
			tin, tout := a.t1, b.t0
			c, dt := tin.Cross(tout), tin.Dot(tout)
			dv := s.Sub(V)
			dist := dv.Len()
			if ja := joinAllowance(spec); ja > 0 && dist <= ja+mg {
				allowed = true
			}
			if math.Abs(c) < 1e-9 && dt > 0 {
				continue // straight on: no join
			}
			sigma := 1.0 // outer side is the right-hand side for a left turn
			if c < 0 {
				sigma = -1
			}
			nA, nB := rightNormal(tin).Mul(sigma), rightNormal(tout).Mul(sigma)
			reversal := math.Abs(c) < 1e-9
			// the cone of directions whose closest path point is the vertex
			if dv.Dot(tin) < 0 || dv.Dot(tout) > 0 {
				continue
			}
			straight := !a.curved && !b.curved
			sinHalf := math.Sqrt(math.Max(0, (1+dt)/2)) // sin(theta/2), theta the interior angle = pi - turn
			// (cos(turn) = dt, theta = pi - turn, sin(theta/2) = cos(turn/2) = sqrt((1+dt)/2))
			full := false
			switch spec.Join {
			case JoinRound:
				full = true
			case JoinMiter:
				full = !reversal && sinHalf*spec.Limit > 1+1e-6
			case JoinArcs:
				full = straight && !reversal && sinHalf*spec.Limit > 1+1e-6
			case JoinMiterClip:
				full = !reversal
			case JoinArcsClip:
				full = straight && !reversal
			}
			if full {
				if dist < in {
					return 1, "join"
				}
				continue
			}
			if !reversal && !straight && (spec.Join == JoinArcs || spec.Join == JoinArcsClip) {
				if arcsJoinCovers(a, b, V, nA, nB, s, r, mg, spec.Limit) {
					return 1, "join"
				}
			}
			if reversal || (!straight && (spec.Join == JoinArcs || spec.Join == JoinArcsClip)) {
				continue
			}
			// bevel triangle V, A, B, kept mg away from the bevel edge AB
			A, B := V.Add(nA.Mul(r)), V.Add(nB.Mul(r))
			ab := B.Sub(A)
			l := ab.Len()
			if l == 0 {
				continue
			}
			side := ab.Cross(V.Sub(A)) / l // signed distance of V from AB
			ds := ab.Cross(s.Sub(A)) / l
			if side < 0 {
				side, ds = -side, -ds
			}
			if ds > mg && ds <= side {
				return 1, "join"
			}
		}
		// caps
		if !sub.closed && ns > 0 {
			ends := [2]struct{ E, u Pt }{
				{sub.segs[0].pts[0], sub.segs[0].t0.Mul(-1)},
				{sub.segs[ns-1].pts[len(sub.segs[ns-1].pts)-1], sub.segs[ns-1].t1},
			}
			for _, e := range ends {
				dv := s.Sub(e.E)
				al, pe := dv.Dot(e.u), math.Abs(dv.Cross(e.u))
				switch spec.Cap {
				case CapRound:
					if al >= 0 && dv.Len() < in {
						return 1, "cap"
					}
				case CapSquare:
					if al >= 0 && al < in && pe < in {
						return 1, "cap"
					}
					if al >= -mg && al <= r+mg && pe <= r+mg {
						allowed = true
					}
				}
			}
		}
	}
	if farFromPath && !allowed {
		return -1, "outside"
	}
	return 0, ""
}

// offsetCurve is the outer offset of a segment at a join, extended beyond the vertex: a circle
// (ok) or a straight line (the segment is straight).
type offsetCurve struct {
	line   bool
	p, n   Pt      // line: a point on it and the outward normal
	c      Pt      // circle: centre
	R      float64 // circle: radius of the offset
	inside bool    // circle: the stroke lies inside the offset circle (|q-c| <= R)
}

func outerOffset(sg *strokeSeg, V, n Pt, r float64) (offsetCurve, bool) {
	if !sg.curved {
		return offsetCurve{line: true, p: V.Add(n.Mul(r)), n: n}, true
	}
	if !sg.circle {
		return offsetCurve{}, false
	}
	if V.Sub(sg.c).Dot(n) > 0 { // the outer side points away from the centre
		return offsetCurve{c: sg.c, R: sg.rad + r, inside: true}, true
	}
	if sg.rad-r <= 0 {
		return offsetCurve{}, false
	}
	return offsetCurve{c: sg.c, R: sg.rad - r}, true
}

// strokeSide is the distance by which q lies on the stroke's side of the offset curve (negative beyond it).
func (o offsetCurve) strokeSide(q Pt) float64 {
	if o.line {
		return -q.Sub(o.p).Dot(o.n)
	}
	if o.inside {
		return o.R - q.Dist(o.c)
	}
	return q.Dist(o.c) - o.R
}

// arcsJoinCovers: the arcs join of two segments that are straight or arcs of circles is the area
// between the two outer offset curves, continued beyond the vertex until they meet. q is claimed
// (must be inside the stroke) only when that meeting point exists within the limit, q lies in the
// cone between the two end normals, on the stroke's side of both continued offset curves by the
// margin, and no further from the vertex than the meeting point.
func arcsJoinCovers(a, b *strokeSeg, V, nA, nB, q Pt, r, mg, limit float64) bool {
	oa, ok1 := outerOffset(a, V, nA, r)
	ob, ok2 := outerOffset(b, V, nB, r)
	if !ok1 || !ok2 {
		return false
	}
	dv := q.Sub(V)
	if dv.Dot(a.t1) < mg || dv.Dot(b.t0) > -mg {
		return false // not (clearly) in the cone beyond the end of a and before the start of b
	}
	if oa.strokeSide(q) < mg || ob.strokeSide(q) < mg {
		return false
	}
	// the meeting point: walk along the bisector direction from the vertex and look for the point
	// of the cone that lies on both curves (bisection on the curve a, parametrised by the angle
	// in the cone)
	tip, found := Pt{}, false
	n := nA.Add(nB)
	if n.Len() == 0 {
		return false
	}
	// sample directions in the cone; on each ray the boundary of the covered area is the nearer of
	// the two offset curves; the meeting point is where they swap
	const K = 720
	prev := 0.0
	for k := 0; k <= K; k++ {
		t := float64(k) / K
		d := unit(nA.Mul(1 - t).Add(nB.Mul(t)))
		ra, okA := rayHit(V, d, oa)
		rb, okB := rayHit(V, d, ob)
		if !okA || !okB {
			return false
		}
		diff := ra - rb
		if k > 0 && (diff == 0 || (diff > 0) != (prev > 0)) {
			tip, found = V.Add(d.Mul(math.Min(ra, rb))), true
			break
		}
		prev = diff
	}
	if !found {
		return false
	}
	reach := tip.Dist(V)
	if reach > limit*r*(1-1e-3) {
		return false // bevelled or clipped: not claimed
	}
	return dv.Len() <= reach
}

// rayHit: the distance from V along the unit direction d to the offset curve (the first crossing
// beyond the immediate neighbourhood of V's own offset points).
func rayHit(V, d Pt, o offsetCurve) (float64, bool) {
	if o.line {
		den := d.Dot(o.n)
		if den <= 1e-12 {
			return 0, false
		}
		return o.p.Sub(V).Dot(o.n) / den, true
	}
	// |V + s d - c|^2 = R^2
	f := V.Sub(o.c)
	bq := f.Dot(d)
	cq := f.Dot(f) - o.R*o.R
	disc := bq*bq - cq
	if disc < 0 {
		return 0, false
	}
	sq := math.Sqrt(disc)
	s1, s2 := -bq-sq, -bq+sq
	if o.inside { // V is inside the circle: the exit point
		if s2 <= 0 {
			return 0, false
		}
		return s2, true
	}
	// V is outside the (smaller) circle: the entry point, if the ray meets it
	if s1 <= 0 {
		return 0, false
	}
	return s1, true
}

// beyondButtCut reports whether s lies past the end plane of an open subpath's end and within
// reach of that end point.
func (m *StrokeModel) beyondButtCut(s Pt, reach float64) bool {
	for _, sub := range m.subs {
		ns := len(sub.segs)
		if sub.closed || ns == 0 {
			continue
		}
		e0, u0 := sub.segs[0].pts[0], sub.segs[0].t0.Mul(-1)
		last := sub.segs[ns-1]
		e1, u1 := last.pts[len(last.pts)-1], last.t1
		if d := s.Sub(e0); d.Dot(u0) > 0 && d.Len() < reach {
			return true
		}
		if d := s.Sub(e1); d.Dot(u1) > 0 && d.Len() < reach {
			return true
		}
	}
	return false
}

// OffsetClassify is the reference for Offset(d) of simple closed polygons: grow = Minkowski
// dilation of the filled polygon by dist, otherwise erosion. inside is the oracle's own
// membership of s in the polygon, bd its distance to the boundary.
func OffsetClassify(inside bool, bd, dist, margin float64, grow bool) int {
	sd := bd // signed distance to the polygon boundary, negative inside
	if inside {
		sd = -bd
	}
	edge := dist // the offset boundary is the level set sd = edge
	if !grow {
		edge = -dist
	}
	if sd < edge-margin {
		return 1
	}
	if sd > edge+margin {
		return -1
	}
	return 0
}
