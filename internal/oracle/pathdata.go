package oracle

// Builders for raw path data from segments, canonical arc parameters (written from the SVG
// implementation notes, not from canvas), isometries applied to raw data, and the
// simplest-first orderings used by the curve enumerations.

import "math"

// CanonArc returns arc parameters in the canonical form of the data stream: rx >= ry > 0,
// phi in [0,pi) radians (0 for circles), radii scaled up (W3C F.6.6) when too small for the chord.
func CanonArc(p0 Pt, rx, ry, rotDeg float64, p1 Pt) (float64, float64, float64) {
	rx, ry = math.Abs(rx), math.Abs(ry)
	if rx == ry {
		rotDeg = 0
	} else if rx < ry {
		rx, ry = ry, rx
		rotDeg += 90
	}
	phi := math.Mod(rotDeg*math.Pi/180, math.Pi)
	if phi < 0 {
		phi += math.Pi
	}
	if phi >= math.Pi {
		phi = 0
	}
	cs, sn := math.Cos(phi), math.Sin(phi)
	dx, dy := (p0.X-p1.X)/2, (p0.Y-p1.Y)/2
	x1 := cs*dx + sn*dy
	y1 := -sn*dx + cs*dy
	lam := x1*x1/(rx*rx) + y1*y1/(ry*ry)
	if lam > 1 {
		s := math.Sqrt(lam)
		rx *= s
		ry *= s
	}
	return rx, ry, phi
}

// MkArc builds a canonical arc segment.
func MkArc(p0 Pt, rx, ry, rotDeg float64, large, sweep bool, p1 Pt) Seg {
	rx, ry, phi := CanonArc(p0, rx, ry, rotDeg, p1)
	return Seg{Kind: CmdArc, P0: p0, P1: p1, Rx: rx, Ry: ry, Phi: phi, Large: large, Sweep: sweep}
}

func MkLine(p0, p1 Pt) Seg         { return Seg{Kind: CmdLine, P0: p0, P1: p1} }
func MkQuad(p0, c, p1 Pt) Seg      { return Seg{Kind: CmdQuad, P0: p0, C1: c, P1: p1} }
func MkCube(p0, c1, c2, p1 Pt) Seg { return Seg{Kind: CmdCube, P0: p0, C1: c1, C2: c2, P1: p1} }

// SegData appends the raw command of s (without MoveTo).
func SegData(d []float64, s Seg) []float64 {
	switch s.Kind {
	case CmdLine:
		return append(d, CmdLine, s.P1.X, s.P1.Y, CmdLine)
	case CmdClose:
		return append(d, CmdClose, s.P1.X, s.P1.Y, CmdClose)
	case CmdQuad:
		return append(d, CmdQuad, s.C1.X, s.C1.Y, s.P1.X, s.P1.Y, CmdQuad)
	case CmdCube:
		return append(d, CmdCube, s.C1.X, s.C1.Y, s.C2.X, s.C2.Y, s.P1.X, s.P1.Y, CmdCube)
	case CmdArc:
		f := 0.0
		if s.Large {
			f += 1
		}
		if s.Sweep {
			f += 2
		}
		return append(d, CmdArc, s.Rx, s.Ry, s.Phi, f, s.P1.X, s.P1.Y, CmdArc)
	}
	panic("oracle: unknown segment kind")
}

// PathData renders subpaths as a raw data stream. A closed subpath gets a Close command back to
// its start unless its last segment already is a Close.
func PathData(sps []Subpath) []float64 {
	var d []float64
	for _, sp := range sps {
		d = append(d, CmdMove, sp.Start.X, sp.Start.Y, CmdMove)
		for _, s := range sp.Segs {
			d = SegData(d, s)
		}
		if sp.Closed && (len(sp.Segs) == 0 || sp.Segs[len(sp.Segs)-1].Kind != CmdClose) {
			d = append(d, CmdClose, sp.Start.X, sp.Start.Y, CmdClose)
		}
	}
	return d
}

// Chain builds one subpath from segments (each segment's P0 must equal the previous P1).
func Chain(closed bool, segs ...Seg) Subpath {
	sp := Subpath{Start: segs[0].P0, Segs: append([]Seg(nil), segs...), Closed: closed}
	if closed {
		last := segs[len(segs)-1].P1
		sp.Segs = append(sp.Segs, Seg{Kind: CmdClose, P0: last, P1: sp.Start})
	}
	return sp
}

// Iso is an axis isometry with scaling: p -> (sx*x+tx, sy*y+ty) with sx, sy = ±k.
type Iso struct{ Sx, Sy, Tx, Ty float64 }

func (m Iso) Pt(p Pt) Pt { return Pt{m.Sx*p.X + m.Tx, m.Sy*p.Y + m.Ty} }

// Seg maps a segment. Requires |Sx| == |Sy|. A reflection flips the sweep flag and mirrors phi.
func (m Iso) Seg(s Seg) Seg {
	o := s
	o.P0, o.C1, o.C2, o.P1 = m.Pt(s.P0), m.Pt(s.C1), m.Pt(s.C2), m.Pt(s.P1)
	if s.Kind == CmdArc {
		k := math.Abs(m.Sx)
		o.Rx, o.Ry = s.Rx*k, s.Ry*k
		if m.Sx*m.Sy < 0 {
			o.Sweep = !s.Sweep
			if s.Phi != 0 {
				o.Phi = math.Pi - s.Phi
			}
		}
	}
	return o
}

// Subpaths maps whole subpaths.
func (m Iso) Subpaths(sps []Subpath) []Subpath {
	out := make([]Subpath, len(sps))
	for i, sp := range sps {
		out[i] = Subpath{Start: m.Pt(sp.Start), Closed: sp.Closed}
		for _, s := range sp.Segs {
			out[i].Segs = append(out[i].Segs, m.Seg(s))
		}
	}
	return out
}

// SimplestFirst returns the integers -k..k ordered 0, 1, -1, 2, -2, …
func SimplestFirst(k int) []float64 {
	out := []float64{0}
	for i := 1; i <= k; i++ {
		out = append(out, float64(i), float64(-i))
	}
	return out
}

// MaxAbsCoord is the largest absolute coordinate / radius appearing in the subpaths (>= tiny).
func MaxAbsCoord(sps []Subpath) float64 {
	m := 0.0
	up := func(v float64) { m = math.Max(m, math.Abs(v)) }
	for _, sp := range sps {
		up(sp.Start.X)
		up(sp.Start.Y)
		for _, s := range sp.Segs {
			for _, p := range []Pt{s.P0, s.P1} {
				up(p.X)
				up(p.Y)
			}
			switch s.Kind {
			case CmdQuad:
				up(s.C1.X)
				up(s.C1.Y)
			case CmdCube:
				up(s.C1.X)
				up(s.C1.Y)
				up(s.C2.X)
				up(s.C2.Y)
			case CmdArc:
				up(s.Rx)
			}
		}
	}
	return m
}
