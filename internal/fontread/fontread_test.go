package fontread

import (
	"math"
	"os"
	"testing"
)

// The exact TrueType reader and x/image agree on every glyph of DejaVuSerif up to x/image's
// truncation of implied midpoints (< 1 font unit), and on every advance.
func TestTTAgainstXImage(t *testing.T) {
	b, err := os.ReadFile("/repo/resources/DejaVuSerif.ttf")
	if err != nil {
		t.Skip(err)
	}
	f, err := Open(b)
	if err != nil {
		t.Fatal(err)
	}
	if len(f.Patched) != 0 {
		t.Fatalf("source font needed patching: %v", f.Patched)
	}
	tt, err := OpenTT(f.Dir)
	if err != nil {
		t.Fatal(err)
	}
	if tt.N != f.N || tt.Upem != f.Upem {
		t.Fatalf("numGlyphs %d/%d upem %d/%d", tt.N, f.N, tt.Upem, f.Upem)
	}
	worst, unsupported, halves, nonEmpty := 0.0, 0, 0, 0
	for g := 0; g < f.N; g++ {
		a, err := f.Outline(g)
		if err != nil {
			t.Fatalf("x/image glyph %d: %v", g, err)
		}
		e, err := tt.Outline(g)
		if err != nil {
			if _, ok := err.(*ErrUnsupported); ok {
				unsupported++
				continue
			}
			t.Fatalf("tt glyph %d: %v", g, err)
		}
		// the two readers may start a contour at different points of it: compare the segments
		// (with their start points) as sets
		type full struct {
			op byte
			p  [4][2]float64
		}
		expand := func(segs []Seg) []full {
			var out []full
			var cur, start [2]float64
			for _, s := range segs {
				switch s.Op {
				case 'M':
					cur, start = s.P[0], s.P[0]
					_ = start
				case 'L':
					if s.P[0] != cur {
						out = append(out, full{'L', [4][2]float64{cur, s.P[0]}})
					}
					cur = s.P[0]
				case 'Q':
					out = append(out, full{'Q', [4][2]float64{cur, s.P[0], s.P[1]}})
					cur = s.P[1]
				}
			}
			return out
		}
		fa, fe := expand(a), expand(e)
		if len(fa) != len(fe) {
			t.Fatalf("glyph %d: %d segments (x/image) vs %d (tt)\n%s\n%s", g, len(fa), len(fe), FmtOutline(a), FmtOutline(e))
		}
		if len(fe) > 0 {
			nonEmpty++
		}
		used := make([]bool, len(fa))
		for _, se := range fe {
			best, bestD := -1, math.Inf(1)
			for i, sa := range fa {
				if used[i] || sa.op != se.op {
					continue
				}
				d := 0.0
				for k := 0; k < 4; k++ {
					for c := 0; c < 2; c++ {
						d = math.Max(d, math.Abs(sa.p[k][c]-se.p[k][c]))
					}
				}
				if d < bestD {
					best, bestD = i, d
				}
			}
			if best < 0 {
				t.Fatalf("glyph %d: no partner for segment %v", g, se)
			}
			used[best] = true
			if bestD > worst {
				worst = bestD
			}
			for k := 0; k < 4; k++ {
				for c := 0; c < 2; c++ {
					if se.p[k][c] != math.Floor(se.p[k][c]) {
						halves++
					}
				}
			}
		}
		wa, _ := f.Advance(g)
		we, err := tt.Advance(g)
		if err != nil || wa != we {
			t.Fatalf("glyph %d: advance %d vs %d (%v)", g, wa, we, err)
		}
	}
	t.Logf("%d glyphs (%d with contours), worst coordinate difference %.3f font units, %d non-integer coordinates, %d unsupported composites", f.N, nonEmpty, worst, halves, unsupported)
	if worst >= 1.01 || halves == 0 || nonEmpty < 3000 {
		t.Fatalf("worst %.3f halves %d nonEmpty %d", worst, halves, nonEmpty)
	}
}

func TestCFFInfo(t *testing.T) {
	for _, fn := range []string{"EBGaramond12-Regular.otf", "Dynalight-Regular.otf"} {
		b, err := os.ReadFile("/repo/resources/" + fn)
		if err != nil {
			t.Skip(err)
		}
		f, err := Open(b)
		if err != nil {
			t.Fatal(err)
		}
		info, err := ReadCFFInfo(f.Dir.Tables["CFF "])
		if err != nil {
			t.Fatal(err)
		}
		if info.CIDKeyed || !f.IsCFF {
			t.Fatalf("%s: CIDKeyed=%v IsCFF=%v ops=%v", fn, info.CIDKeyed, f.IsCFF, info.TopDictOp)
		}
		t.Logf("%s: %d glyphs, upem %d, Top DICT operators %v, 'A' -> %d runes of it %q", fn, f.N, f.Upem, info.TopDictOp, f.GlyphIndex('A'), f.RunesOf(f.GlyphIndex('A')))
	}
}

func TestBuildRoundTrip(t *testing.T) {
	b, err := os.ReadFile("/repo/resources/Dynalight-Regular.otf")
	if err != nil {
		t.Skip(err)
	}
	d, err := ReadDir(b)
	if err != nil {
		t.Fatal(err)
	}
	tabs := map[string][]byte{}
	for k, v := range d.Tables {
		tabs[k] = v
	}
	tabs["cmap"] = minimalCmap
	tabs["post"] = minimalPost
	f, err := Open(Build(d.Magic, tabs))
	if err != nil {
		t.Fatal(err)
	}
	g, _ := Open(b)
	if len(f.Patched) != 0 || f.GlyphIndex('A') != 0 || f.N != g.N {
		t.Fatalf("patched %v, A -> %d, %d/%d glyphs", f.Patched, f.GlyphIndex('A'), f.N, g.N)
	}
	for i := 0; i < f.N; i++ {
		if f.OutlineKey(i) != g.OutlineKey(i) {
			t.Fatalf("glyph %d differs after re-wrapping", i)
		}
	}
}

// The exact charstring reader agrees with x/image on every glyph without fractional operands,
// and differs by less than x/image's rounding on the others.
func TestCFFAgainstXImage(t *testing.T) {
	for _, fn := range []string{"EBGaramond12-Regular.otf", "Dynalight-Regular.otf"} {
		b, err := os.ReadFile("/repo/resources/" + fn)
		if err != nil {
			t.Skip(err)
		}
		f, err := Open(b)
		if err != nil {
			t.Fatal(err)
		}
		c, err := OpenCFF(f.Dir.Tables["CFF "])
		if err != nil {
			t.Fatal(err)
		}
		if len(c.CharStrings) != f.N {
			t.Fatalf("%d charstrings, %d glyphs", len(c.CharStrings), f.N)
		}
		exact, frac, unsupported, nonEmpty := 0, 0, 0, 0
		worst := 0.0
		for g := 0; g < f.N; g++ {
			a, err := f.Outline(g)
			if err != nil {
				t.Fatalf("x/image glyph %d: %v", g, err)
			}
			e, fr, err := c.Outline(g)
			if err != nil {
				if _, ok := err.(*ErrUnsupported); ok {
					unsupported++
					continue
				}
				t.Fatalf("%s glyph %d: %v", fn, g, err)
			}
			if len(e) > 0 {
				nonEmpty++
			}
			if !fr {
				if FmtOutline(a) != FmtOutline(e) {
					t.Fatalf("%s glyph %d (no fractional operands):\n%s\n%s", fn, g, FmtOutline(a), FmtOutline(e))
				}
				exact++
				continue
			}
			frac++
			if len(a) != len(e) {
				continue // a residual closing line of less than a unit shifts the indices
			}
			for i := range a {
				for k := 0; k < 3; k++ {
					for cc := 0; cc < 2; cc++ {
						worst = math.Max(worst, math.Abs(a[i].P[k][cc]-e[i].P[k][cc]))
					}
				}
			}
		}
		t.Logf("%s: %d glyphs (%d with contours): %d equal to x/image, %d with fractional operands (informational: worst index-wise difference %.3f units, x/image rounds and accumulates), %d unsupported", fn, f.N, nonEmpty, exact, frac, worst, unsupported)
		if exact < f.N/2 || unsupported > 0 {
			t.Fatal("too few glyphs compared")
		}
	}
}
