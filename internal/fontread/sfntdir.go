// Package fontread reads font programs for the C18 oracle without using github.com/tdewolff/font
// (the implementation behind the code under test): outlines, advances and the character map come
// from golang.org/x/image/font/sfnt; this file is a reader/writer for the sfnt table directory
// (OpenType spec, "Organization of an OpenType Font"), glyf.go an exact reader of TrueType
// outlines, cff.go just enough of CFF to tell a CID-keyed program from a name-keyed one.
package fontread

import (
	"encoding/binary"
	"fmt"
	"sort"
)

// Dir is a parsed sfnt table directory.
type Dir struct {
	Magic  [4]byte
	Tags   []string // in file order of the directory
	Tables map[string][]byte
}

// ReadDir reads the table directory; table data are sub-slices of b.
func ReadDir(b []byte) (*Dir, error) {
	if len(b) < 12 {
		return nil, fmt.Errorf("sfnt: %d bytes are too few for an offset table", len(b))
	}
	d := &Dir{Tables: map[string][]byte{}}
	copy(d.Magic[:], b)
	switch string(d.Magic[:]) {
	case "\x00\x01\x00\x00", "OTTO", "true":
	default:
		return nil, fmt.Errorf("sfnt: unknown version tag % x", d.Magic)
	}
	n := int(binary.BigEndian.Uint16(b[4:]))
	if len(b) < 12+16*n {
		return nil, fmt.Errorf("sfnt: directory of %d tables does not fit in %d bytes", n, len(b))
	}
	for i := 0; i < n; i++ {
		rec := b[12+16*i:]
		tag := string(rec[:4])
		off := int(binary.BigEndian.Uint32(rec[8:]))
		length := int(binary.BigEndian.Uint32(rec[12:]))
		if off < 0 || length < 0 || off+length > len(b) {
			return nil, fmt.Errorf("sfnt: table %q [%d,+%d) lies outside the %d bytes of the program", tag, off, length, len(b))
		}
		if _, dup := d.Tables[tag]; dup {
			return nil, fmt.Errorf("sfnt: table %q listed twice", tag)
		}
		d.Tags = append(d.Tags, tag)
		d.Tables[tag] = b[off : off+length]
	}
	return d, nil
}

func tableSum(b []byte) uint32 {
	var s uint32
	for i := 0; i+4 <= len(b); i += 4 {
		s += binary.BigEndian.Uint32(b[i:])
	}
	if r := len(b) % 4; r != 0 {
		var last [4]byte
		copy(last[:], b[len(b)-r:])
		s += binary.BigEndian.Uint32(last[:])
	}
	return s
}

// Build writes a font file with the given tables (sorted by tag, 4-byte aligned).
func Build(magic [4]byte, tables map[string][]byte) []byte {
	tags := make([]string, 0, len(tables))
	for t := range tables {
		tags = append(tags, t)
	}
	sort.Strings(tags)
	n := len(tags)
	es, sr := 0, 1
	for sr*2 <= n {
		sr *= 2
		es++
	}
	out := make([]byte, 12+16*n)
	copy(out, magic[:])
	binary.BigEndian.PutUint16(out[4:], uint16(n))
	binary.BigEndian.PutUint16(out[6:], uint16(sr*16))
	binary.BigEndian.PutUint16(out[8:], uint16(es))
	binary.BigEndian.PutUint16(out[10:], uint16(n*16-sr*16))
	for i, t := range tags {
		data := tables[t]
		off := len(out)
		out = append(out, data...)
		for len(out)%4 != 0 {
			out = append(out, 0)
		}
		rec := out[12+16*i:]
		copy(rec, t)
		binary.BigEndian.PutUint32(rec[4:], tableSum(data))
		binary.BigEndian.PutUint32(rec[8:], uint32(off))
		binary.BigEndian.PutUint32(rec[12:], uint32(len(data)))
	}
	return out
}

// minimalCmap maps no character to a glyph: one (3,1) format-4 subtable with the mandatory
// final segment 0xFFFF..0xFFFF only.
var minimalCmap = []byte{
	0, 0, 0, 1, // version, numTables
	0, 3, 0, 1, 0, 0, 0, 12, // platform 3, encoding 1, offset 12
	0, 4, 0, 24, 0, 0, // format 4, length 24, language 0
	0, 2, 0, 2, 0, 0, 0, 0, // segCountX2, searchRange, entrySelector, rangeShift
	0xFF, 0xFF, // endCode[0]
	0, 0, // reservedPad
	0xFF, 0xFF, // startCode[0]
	0, 1, // idDelta[0]
	0, 0, // idRangeOffset[0]
}

// minimalPost is a version 3.0 post table (no glyph names).
var minimalPost = func() []byte {
	b := make([]byte, 32)
	binary.BigEndian.PutUint32(b, 0x00030000)
	return b
}()
