package fontread

import "fmt"

// CFFInfo is what 9.7.4.2 of ISO 32000-1 needs to know about a CFF program embedded for a
// CIDFontType0: whether its Top DICT uses CIDFont operators (ROS, operator 12 30; Adobe TN
// #5176 section 18). If it does not, CIDs are used directly as glyph indices.
type CFFInfo struct {
	CIDKeyed  bool
	TopDictOp []int // operators seen in the Top DICT (escape operators as 1200+n)
}

func cffIndex(b []byte, p int) (items [][]byte, next int, err error) {
	if p+2 > len(b) {
		return nil, 0, fmt.Errorf("cff: INDEX at %d is truncated", p)
	}
	count := int(b[p])<<8 | int(b[p+1])
	p += 2
	if count == 0 {
		return nil, p, nil
	}
	if p+1 > len(b) {
		return nil, 0, fmt.Errorf("cff: INDEX is truncated")
	}
	osz := int(b[p])
	p++
	if osz < 1 || osz > 4 || p+(count+1)*osz > len(b) {
		return nil, 0, fmt.Errorf("cff: INDEX with offSize %d and %d entries does not fit", osz, count)
	}
	offs := make([]int, count+1)
	for i := range offs {
		v := 0
		for k := 0; k < osz; k++ {
			v = v<<8 | int(b[p])
			p++
		}
		offs[i] = v
	}
	base := p - 1
	for i := 0; i < count; i++ {
		if offs[i] < 1 || offs[i+1] < offs[i] || base+offs[i+1] > len(b) {
			return nil, 0, fmt.Errorf("cff: INDEX offsets are not monotone within the table")
		}
		items = append(items, b[base+offs[i]:base+offs[i+1]])
	}
	return items, base + offs[count], nil
}

// ReadCFFInfo scans header, Name INDEX and the first Top DICT.
func ReadCFFInfo(cff []byte) (*CFFInfo, error) {
	if len(cff) < 4 || cff[0] != 1 {
		return nil, fmt.Errorf("cff: not a CFF version 1 table")
	}
	_, p, err := cffIndex(cff, int(cff[2]))
	if err != nil {
		return nil, err
	}
	tops, _, err := cffIndex(cff, p)
	if err != nil {
		return nil, err
	}
	if len(tops) != 1 {
		return nil, fmt.Errorf("cff: %d Top DICTs", len(tops))
	}
	info := &CFFInfo{}
	d := tops[0]
	for i := 0; i < len(d); {
		b0 := d[i]
		switch {
		case b0 == 12:
			if i+1 >= len(d) {
				return nil, fmt.Errorf("cff: Top DICT is truncated")
			}
			op := 1200 + int(d[i+1])
			info.TopDictOp = append(info.TopDictOp, op)
			if op == 1230 {
				info.CIDKeyed = true
			}
			i += 2
		case b0 <= 21:
			info.TopDictOp = append(info.TopDictOp, int(b0))
			i++
		case b0 == 28:
			i += 3
		case b0 == 29:
			i += 5
		case b0 == 30:
			i++
			for i < len(d) {
				v := d[i]
				i++
				if v&0x0F == 0x0F || v>>4 == 0x0F {
					break
				}
			}
		case b0 >= 32 && b0 <= 246:
			i++
		case b0 >= 247 && b0 <= 254:
			i += 2
		default:
			return nil, fmt.Errorf("cff: reserved byte %d in the Top DICT", b0)
		}
	}
	return info, nil
}

// ---------------------------------------------------------------------------------------------
// Exact Type 2 charstring reader (Adobe TN #5176 "The Compact Font Format Specification" and
// TN #5177 "The Type 2 Charstring Format"). x/image rounds 16.16 fixed-point operands to
// integers; this reader keeps them, so that outlines can be compared to 1e-6 of the font size.
// Name-keyed fonts only (one Private DICT); arithmetic/storage operators and seac are reported
// as unsupported.

// CFF holds what is needed to interpret charstrings.
type CFF struct {
	CharStrings [][]byte
	gsubrs      [][]byte
	subrs       [][]byte
}

type dictEntry struct {
	op   int
	args []float64
}

func parseDict(d []byte) ([]dictEntry, error) {
	var out []dictEntry
	var args []float64
	for i := 0; i < len(d); {
		b0 := d[i]
		switch {
		case b0 == 12:
			if i+1 >= len(d) {
				return nil, fmt.Errorf("cff: DICT is truncated")
			}
			out = append(out, dictEntry{1200 + int(d[i+1]), args})
			args = nil
			i += 2
		case b0 <= 21:
			out = append(out, dictEntry{int(b0), args})
			args = nil
			i++
		case b0 == 28:
			if i+2 >= len(d) {
				return nil, fmt.Errorf("cff: DICT is truncated")
			}
			args = append(args, float64(int16(uint16(d[i+1])<<8|uint16(d[i+2]))))
			i += 3
		case b0 == 29:
			if i+4 >= len(d) {
				return nil, fmt.Errorf("cff: DICT is truncated")
			}
			args = append(args, float64(int32(uint32(d[i+1])<<24|uint32(d[i+2])<<16|uint32(d[i+3])<<8|uint32(d[i+4]))))
			i += 5
		case b0 == 30:
			// real number: only its presence matters here (no real-valued offsets exist)
			i++
			for i < len(d) {
				v := d[i]
				i++
				if v&0x0F == 0x0F || v>>4 == 0x0F {
					break
				}
			}
			args = append(args, 0)
		case b0 >= 32 && b0 <= 246:
			args = append(args, float64(int(b0)-139))
			i++
		case b0 >= 247 && b0 <= 250:
			if i+1 >= len(d) {
				return nil, fmt.Errorf("cff: DICT is truncated")
			}
			args = append(args, float64((int(b0)-247)*256+int(d[i+1])+108))
			i += 2
		case b0 >= 251 && b0 <= 254:
			if i+1 >= len(d) {
				return nil, fmt.Errorf("cff: DICT is truncated")
			}
			args = append(args, float64(-(int(b0)-251)*256-int(d[i+1])-108))
			i += 2
		default:
			return nil, fmt.Errorf("cff: reserved byte %d in a DICT", b0)
		}
	}
	return out, nil
}

// OpenCFF reads the INDEXes of a name-keyed CFF table.
func OpenCFF(cff []byte) (*CFF, error) {
	if len(cff) < 4 || cff[0] != 1 {
		return nil, fmt.Errorf("cff: not a CFF version 1 table")
	}
	_, p, err := cffIndex(cff, int(cff[2]))
	if err != nil {
		return nil, err
	}
	tops, p, err := cffIndex(cff, p)
	if err != nil {
		return nil, err
	}
	if len(tops) != 1 {
		return nil, fmt.Errorf("cff: %d Top DICTs", len(tops))
	}
	_, p, err = cffIndex(cff, p) // String INDEX
	if err != nil {
		return nil, err
	}
	c := &CFF{}
	c.gsubrs, _, err = cffIndex(cff, p)
	if err != nil {
		return nil, err
	}
	top, err := parseDict(tops[0])
	if err != nil {
		return nil, err
	}
	csOff, privSize, privOff := -1, -1, -1
	for _, e := range top {
		switch e.op {
		case 1230:
			return nil, &ErrUnsupported{"CID-keyed CFF"}
		case 1206:
			if len(e.args) == 1 && e.args[0] != 2 {
				return nil, &ErrUnsupported{fmt.Sprintf("CharstringType %g", e.args[0])}
			}
		case 17:
			if len(e.args) == 1 {
				csOff = int(e.args[0])
			}
		case 18:
			if len(e.args) == 2 {
				privSize, privOff = int(e.args[0]), int(e.args[1])
			}
		}
	}
	if csOff <= 0 {
		return nil, fmt.Errorf("cff: no CharStrings offset in the Top DICT")
	}
	c.CharStrings, _, err = cffIndex(cff, csOff)
	if err != nil {
		return nil, err
	}
	if privOff > 0 && privSize >= 0 {
		if privOff+privSize > len(cff) {
			return nil, fmt.Errorf("cff: Private DICT lies outside the table")
		}
		priv, err := parseDict(cff[privOff : privOff+privSize])
		if err != nil {
			return nil, err
		}
		for _, e := range priv {
			if e.op == 19 && len(e.args) == 1 {
				c.subrs, _, err = cffIndex(cff, privOff+int(e.args[0]))
				if err != nil {
					return nil, err
				}
			}
		}
	}
	return c, nil
}

func subrBias(n int) int {
	switch {
	case n < 1240:
		return 107
	case n < 33900:
		return 1131
	}
	return 32768
}

type t2 struct {
	c          *CFF
	stack      []float64
	x, y       float64
	sx, sy     float64
	open       bool
	nStems     int
	widthDone  bool
	segs       []Seg
	ended      bool
	fractional bool
	depth      int
}

func (t *t2) closeContour() {
	if t.open && (t.x != t.sx || t.y != t.sy) {
		t.segs = append(t.segs, Seg{Op: 'L', P: [3][2]float64{{t.sx, t.sy}}})
	}
	t.open = false
}

func (t *t2) moveTo(dx, dy float64) {
	t.closeContour()
	t.x += dx
	t.y += dy
	t.sx, t.sy = t.x, t.y
	t.open = true
	t.segs = append(t.segs, Seg{Op: 'M', P: [3][2]float64{{t.x, t.y}}})
}

func (t *t2) lineTo(dx, dy float64) {
	t.x += dx
	t.y += dy
	t.segs = append(t.segs, Seg{Op: 'L', P: [3][2]float64{{t.x, t.y}}})
}

func (t *t2) curveTo(dxa, dya, dxb, dyb, dxc, dyc float64) {
	xa, ya := t.x+dxa, t.y+dya
	xb, yb := xa+dxb, ya+dyb
	t.x, t.y = xb+dxc, yb+dyc
	t.segs = append(t.segs, Seg{Op: 'C', P: [3][2]float64{{xa, ya}, {xb, yb}, {t.x, t.y}}})
}

// takeWidth removes the optional width operand in front of the first stack-clearing operator.
func (t *t2) takeWidth(hasExtra bool) {
	if !t.widthDone {
		t.widthDone = true
		if hasExtra && len(t.stack) > 0 {
			t.stack = t.stack[1:]
		}
	}
}

func (t *t2) run(code []byte) error {
	if t.depth > 10 {
		return fmt.Errorf("cff: subroutines nested deeper than 10")
	}
	for i := 0; i < len(code) && !t.ended; {
		b0 := code[i]
		switch {
		case b0 == 28:
			if i+2 >= len(code) {
				return fmt.Errorf("cff: charstring is truncated")
			}
			t.stack = append(t.stack, float64(int16(uint16(code[i+1])<<8|uint16(code[i+2]))))
			i += 3
			continue
		case b0 >= 32 && b0 <= 246:
			t.stack = append(t.stack, float64(int(b0)-139))
			i++
			continue
		case b0 >= 247 && b0 <= 250:
			if i+1 >= len(code) {
				return fmt.Errorf("cff: charstring is truncated")
			}
			t.stack = append(t.stack, float64((int(b0)-247)*256+int(code[i+1])+108))
			i += 2
			continue
		case b0 >= 251 && b0 <= 254:
			if i+1 >= len(code) {
				return fmt.Errorf("cff: charstring is truncated")
			}
			t.stack = append(t.stack, float64(-(int(b0)-251)*256-int(code[i+1])-108))
			i += 2
			continue
		case b0 == 255:
			if i+4 >= len(code) {
				return fmt.Errorf("cff: charstring is truncated")
			}
			v := int32(uint32(code[i+1])<<24 | uint32(code[i+2])<<16 | uint32(code[i+3])<<8 | uint32(code[i+4]))
			if v&0xFFFF != 0 {
				t.fractional = true
			}
			t.stack = append(t.stack, float64(v)/65536)
			i += 5
			continue
		}
		// operator
		i++
		s := t.stack
		n := len(s)
		clear := true
		switch b0 {
		case 1, 3, 18, 23: // hstem vstem hstemhm vstemhm
			t.takeWidth(n%2 == 1)
			t.nStems += len(t.stack) / 2
		case 19, 20: // hintmask cntrmask (with implicit vstem)
			t.takeWidth(n%2 == 1)
			t.nStems += len(t.stack) / 2
			i += (t.nStems + 7) / 8
			if i > len(code) {
				return fmt.Errorf("cff: hint mask is truncated")
			}
		case 21: // rmoveto
			t.takeWidth(n > 2)
			s = t.stack
			if len(s) < 2 {
				return fmt.Errorf("cff: rmoveto with %d operands", len(s))
			}
			t.moveTo(s[0], s[1])
		case 22: // hmoveto
			t.takeWidth(n > 1)
			s = t.stack
			if len(s) < 1 {
				return fmt.Errorf("cff: hmoveto without operand")
			}
			t.moveTo(s[0], 0)
		case 4: // vmoveto
			t.takeWidth(n > 1)
			s = t.stack
			if len(s) < 1 {
				return fmt.Errorf("cff: vmoveto without operand")
			}
			t.moveTo(0, s[0])
		case 5: // rlineto
			for k := 0; k+1 < n; k += 2 {
				t.lineTo(s[k], s[k+1])
			}
		case 6, 7: // hlineto vlineto
			horiz := b0 == 6
			for k := 0; k < n; k++ {
				if horiz {
					t.lineTo(s[k], 0)
				} else {
					t.lineTo(0, s[k])
				}
				horiz = !horiz
			}
		case 8: // rrcurveto
			for k := 0; k+5 < n; k += 6 {
				t.curveTo(s[k], s[k+1], s[k+2], s[k+3], s[k+4], s[k+5])
			}
		case 24: // rcurveline
			k := 0
			for ; k+5 < n-2; k += 6 {
				t.curveTo(s[k], s[k+1], s[k+2], s[k+3], s[k+4], s[k+5])
			}
			if k+1 < n {
				t.lineTo(s[k], s[k+1])
			}
		case 25: // rlinecurve
			k := 0
			for ; k+1 < n-6; k += 2 {
				t.lineTo(s[k], s[k+1])
			}
			if k+5 < n {
				t.curveTo(s[k], s[k+1], s[k+2], s[k+3], s[k+4], s[k+5])
			}
		case 26: // vvcurveto
			k := 0
			dx1 := 0.0
			if n%4 == 1 {
				dx1 = s[0]
				k = 1
			}
			for ; k+3 < n; k += 4 {
				t.curveTo(dx1, s[k], s[k+1], s[k+2], 0, s[k+3])
				dx1 = 0
			}
		case 27: // hhcurveto
			k := 0
			dy1 := 0.0
			if n%4 == 1 {
				dy1 = s[0]
				k = 1
			}
			for ; k+3 < n; k += 4 {
				t.curveTo(s[k], dy1, s[k+1], s[k+2], s[k+3], 0)
				dy1 = 0
			}
		case 30, 31: // vhcurveto hvcurveto
			horiz := b0 == 31
			for k := 0; k+3 < n; k += 4 {
				last := 0.0
				if n-k == 5 {
					last = s[k+4]
				}
				if horiz {
					t.curveTo(s[k], 0, s[k+1], s[k+2], last, s[k+3])
				} else {
					t.curveTo(0, s[k], s[k+1], s[k+2], s[k+3], last)
				}
				horiz = !horiz
			}
		case 10, 29: // callsubr callgsubr
			clear = false
			if n < 1 {
				return fmt.Errorf("cff: subroutine call without operand")
			}
			list := t.c.subrs
			if b0 == 29 {
				list = t.c.gsubrs
			}
			idx := int(s[n-1]) + subrBias(len(list))
			t.stack = s[:n-1]
			if idx < 0 || idx >= len(list) {
				return fmt.Errorf("cff: subroutine %d does not exist (%d subroutines)", idx, len(list))
			}
			t.depth++
			if err := t.run(list[idx]); err != nil {
				return err
			}
			t.depth--
		case 11: // return
			return nil
		case 14: // endchar
			t.takeWidth(n == 1 || n == 5)
			if len(t.stack) >= 4 {
				return &ErrUnsupported{"endchar with seac operands"}
			}
			t.closeContour()
			t.ended = true
		case 12:
			if i >= len(code) {
				return fmt.Errorf("cff: escape operator is truncated")
			}
			b1 := code[i]
			i++
			switch b1 {
			case 34: // hflex
				if n < 7 {
					return fmt.Errorf("cff: hflex with %d operands", n)
				}
				t.curveTo(s[0], 0, s[1], s[2], s[3], 0)
				t.curveTo(s[4], 0, s[5], -s[2], s[6], 0)
			case 35: // flex
				if n < 13 {
					return fmt.Errorf("cff: flex with %d operands", n)
				}
				t.curveTo(s[0], s[1], s[2], s[3], s[4], s[5])
				t.curveTo(s[6], s[7], s[8], s[9], s[10], s[11])
			case 36: // hflex1
				if n < 9 {
					return fmt.Errorf("cff: hflex1 with %d operands", n)
				}
				t.curveTo(s[0], s[1], s[2], s[3], s[4], 0)
				t.curveTo(s[5], 0, s[6], s[7], s[8], -(s[1] + s[3] + s[7]))
			case 37: // flex1
				if n < 11 {
					return fmt.Errorf("cff: flex1 with %d operands", n)
				}
				dx := s[0] + s[2] + s[4] + s[6] + s[8]
				dy := s[1] + s[3] + s[5] + s[7] + s[9]
				t.curveTo(s[0], s[1], s[2], s[3], s[4], s[5])
				if abs(dx) > abs(dy) {
					t.curveTo(s[6], s[7], s[8], s[9], s[10], -dy)
				} else {
					t.curveTo(s[6], s[7], s[8], s[9], -dx, s[10])
				}
			default:
				return &ErrUnsupported{fmt.Sprintf("charstring operator 12 %d", b1)}
			}
		default:
			return fmt.Errorf("cff: reserved charstring operator %d", b0)
		}
		if clear {
			t.stack = t.stack[:0]
		}
	}
	return nil
}

func abs(x float64) float64 {
	if x < 0 {
		return -x
	}
	return x
}

// Outline interprets the charstring of a glyph exactly. fractional reports whether a 16.16
// operand with a non-zero fraction occurred (x/image rounds those).
func (c *CFF) Outline(gid int) (segs []Seg, fractional bool, err error) {
	if gid < 0 || gid >= len(c.CharStrings) {
		return nil, false, fmt.Errorf("cff: glyph index %d outside the %d charstrings", gid, len(c.CharStrings))
	}
	t := &t2{c: c}
	if err := t.run(c.CharStrings[gid]); err != nil {
		return nil, false, err
	}
	if !t.ended {
		return nil, false, fmt.Errorf("cff: charstring %d does not end with endchar", gid)
	}
	return t.segs, t.fractional, nil
}
