package fontread

import "fmt"

// CFFInfo is what 9.7.4.2 of ISO 32000-1 needs to know about a CFF program embedded for a
// CIDFontType0: whether its Top DICT uses CIDFont operators (ROS, operator 12 30; Adobe TN
// #5176 section 18). If it does not, CIDs are used directly as glyph indices.
type CFFInfo struct {
	CIDKeyed  bool
	TopDictOp []int // operators seen in the Top DICT (escape operators as 1200+n)
}

func cffIndex(b []byte, p int) (items [][]byte, next int, err error) {
	if p+2 > len(b) {
		return nil, 0, fmt.Errorf("cff: INDEX at %d is truncated", p)
	}
	count := int(b[p])<<8 | int(b[p+1])
	p += 2
	if count == 0 {
		return nil, p, nil
	}
	if p+1 > len(b) {
		return nil, 0, fmt.Errorf("cff: INDEX is truncated")
	}
	osz := int(b[p])
	p++
	if osz < 1 || osz > 4 || p+(count+1)*osz > len(b) {
		return nil, 0, fmt.Errorf("cff: INDEX with offSize %d and %d entries does not fit", osz, count)
	}
	offs := make([]int, count+1)
	for i := range offs {
		v := 0
		for k := 0; k < osz; k++ {
			v = v<<8 | int(b[p])
			p++
		}
		offs[i] = v
	}
	base := p - 1
	for i := 0; i < count; i++ {
		if offs[i] < 1 || offs[i+1] < offs[i] || base+offs[i+1] > len(b) {
			return nil, 0, fmt.Errorf("cff: INDEX offsets are not monotone within the table")
		}
		items = append(items, b[base+offs[i]:base+offs[i+1]])
	}
	return items, base + offs[count], nil
}

// ReadCFFInfo scans header, Name INDEX and the first Top DICT.
func ReadCFFInfo(cff []byte) (*CFFInfo, error) {
	if len(cff) < 4 || cff[0] != 1 {
		return nil, fmt.Errorf("cff: not a CFF version 1 table")
	}
	_, p, err := cffIndex(cff, int(cff[2]))
	if err != nil {
		return nil, err
	}
	tops, _, err := cffIndex(cff, p)
	if err != nil {
		return nil, err
	}
	if len(tops) != 1 {
		return nil, fmt.Errorf("cff: %d Top DICTs", len(tops))
	}
	info := &CFFInfo{}
	d := tops[0]
	for i := 0; i < len(d); {
		b0 := d[i]
		switch {
		case b0 == 12:
			if i+1 >= len(d) {
				return nil, fmt.Errorf("cff: Top DICT is truncated")
			}
			op := 1200 + int(d[i+1])
			info.TopDictOp = append(info.TopDictOp, op)
			if op == 1230 {
				info.CIDKeyed = true
			}
			i += 2
		case b0 <= 21:
			info.TopDictOp = append(info.TopDictOp, int(b0))
			i++
		case b0 == 28:
			i += 3
		case b0 == 29:
			i += 5
		case b0 == 30:
			i++
			for i < len(d) {
				v := d[i]
				i++
				if v&0x0F == 0x0F || v>>4 == 0x0F {
					break
				}
			}
		case b0 >= 32 && b0 <= 246:
			i++
		case b0 >= 247 && b0 <= 254:
			i += 2
		default:
			return nil, fmt.Errorf("cff: reserved byte %d in the Top DICT", b0)
		}
	}
	return info, nil
}
