package fontread

import (
	"fmt"
	"strings"

	xfont "golang.org/x/image/font"
	"golang.org/x/image/font/sfnt"
	"golang.org/x/image/math/fixed"
)

// Seg is one outline segment in font units, y up. Op is 'M', 'L', 'Q' or 'C'; P holds 1, 1, 2
// or 3 points.
type Seg struct {
	Op byte
	P  [3][2]float64
}

// Font is a font program opened with golang.org/x/image/font/sfnt.
type Font struct {
	F     *sfnt.Font
	Dir   *Dir
	Upem  int
	N     int  // number of glyphs
	IsCFF bool // has a 'CFF ' table (outlines are cubic)
	// Patched lists the tables that had to be replaced by minimal stand-ins (cmap, post) or
	// dropped before x/image accepted the program, with the error that asked for it. The glyph
	// data (glyf/loca or CFF), head, maxp, hhea and hmtx are never touched.
	Patched []string

	buf  sfnt.Buffer
	rev  map[uint16][]rune
	outl map[int]string

	exactTried bool
	exactErr   error
	tt         *TT
	cff        *CFF
	exact      map[int]string
}

// Open parses a font program. Programs that x/image rejects because of tables that have
// nothing to do with glyph selection by glyph index (an absent cmap, an absent or short post)
// are re-wrapped with minimal stand-ins for those tables; what was done is in Patched.
func Open(program []byte) (*Font, error) {
	dir, err := ReadDir(program)
	if err != nil {
		return nil, err
	}
	ft := &Font{Dir: dir, outl: map[int]string{}}
	_, ft.IsCFF = dir.Tables["CFF "]
	f, err := sfnt.Parse(program)
	if err != nil {
		tables := map[string][]byte{}
		for k, v := range dir.Tables {
			tables[k] = v
		}
		for try := 0; err != nil && try < 8; try++ {
			msg := err.Error()
			var tag string
			var repl []byte
			switch {
			case strings.Contains(msg, "cmap"):
				tag, repl = "cmap", minimalCmap
			case strings.Contains(msg, "post"):
				tag, repl = "post", minimalPost
			case strings.Contains(msg, "name"):
				tag = "name"
			case strings.Contains(msg, "OS/2"):
				tag = "OS/2"
			case strings.Contains(msg, "kern"):
				tag = "kern"
			case strings.Contains(msg, "GPOS"):
				tag = "GPOS"
			default:
				return nil, fmt.Errorf("x/image/font/sfnt: %v", err)
			}
			had := "absent"
			if t, ok := dir.Tables[tag]; ok {
				had = fmt.Sprintf("%d bytes", len(t))
			}
			for _, p := range ft.Patched {
				if strings.HasPrefix(p, tag+" ") {
					return nil, fmt.Errorf("x/image/font/sfnt: %v (also with a stand-in %s table)", err, tag)
				}
			}
			ft.Patched = append(ft.Patched, fmt.Sprintf("%s (%s in the program: %v)", tag, had, err))
			if repl != nil {
				tables[tag] = repl
			} else {
				delete(tables, tag)
			}
			f, err = sfnt.Parse(Build(dir.Magic, tables))
		}
		if err != nil {
			return nil, fmt.Errorf("x/image/font/sfnt: %v", err)
		}
	}
	ft.F = f
	ft.Upem = int(f.UnitsPerEm())
	ft.N = f.NumGlyphs()
	if ft.Upem <= 0 {
		return nil, fmt.Errorf("unitsPerEm %d", ft.Upem)
	}
	return ft, nil
}

// Outline returns the outline of a glyph as x/image reads it, in integer font units, y up.
// (x/image truncates the implied on-curve points of TrueType outlines to integers; use TT for
// exact TrueType outlines.)
func (ft *Font) Outline(gid int) ([]Seg, error) {
	if gid < 0 || gid >= ft.N {
		return nil, fmt.Errorf("glyph index %d outside the %d glyphs of the program", gid, ft.N)
	}
	segs, err := ft.F.LoadGlyph(&ft.buf, sfnt.GlyphIndex(gid), fixed.Int26_6(ft.Upem), nil)
	if err != nil {
		return nil, err
	}
	out := make([]Seg, 0, len(segs))
	for _, s := range segs {
		var o Seg
		n := 1
		switch s.Op {
		case sfnt.SegmentOpMoveTo:
			o.Op = 'M'
		case sfnt.SegmentOpLineTo:
			o.Op = 'L'
		case sfnt.SegmentOpQuadTo:
			o.Op, n = 'Q', 2
		case sfnt.SegmentOpCubeTo:
			o.Op, n = 'C', 3
		default:
			return nil, fmt.Errorf("unknown segment op %d", s.Op)
		}
		for k := 0; k < n; k++ {
			o.P[k] = [2]float64{float64(s.Args[k].X), 0 - float64(s.Args[k].Y)}
		}
		out = append(out, o)
	}
	return out, nil
}

// FmtOutline renders an outline compactly ("M0 0L10 0Q...").
func FmtOutline(segs []Seg) string {
	var sb strings.Builder
	for _, s := range segs {
		sb.WriteByte(s.Op)
		n := 1
		if s.Op == 'Q' {
			n = 2
		} else if s.Op == 'C' {
			n = 3
		}
		for k := 0; k < n; k++ {
			if k > 0 {
				sb.WriteByte(' ')
			}
			fmt.Fprintf(&sb, "%g %g", s.P[k][0], s.P[k][1])
		}
	}
	return sb.String()
}

// OutlineKey is FmtOutline(Outline(gid)), cached; errors are rendered into the key.
func (ft *Font) OutlineKey(gid int) string {
	if k, ok := ft.outl[gid]; ok {
		return k
	}
	segs, err := ft.Outline(gid)
	k := ""
	if err != nil {
		k = "error: " + err.Error()
	} else {
		k = FmtOutline(segs)
	}
	ft.outl[gid] = k
	return k
}

// Advance returns the horizontal advance of the glyph in font units (hmtx).
func (ft *Font) Advance(gid int) (int, error) {
	if gid < 0 || gid >= ft.N {
		return 0, fmt.Errorf("glyph index %d outside the %d glyphs of the program", gid, ft.N)
	}
	a, err := ft.F.GlyphAdvance(&ft.buf, sfnt.GlyphIndex(gid), fixed.Int26_6(ft.Upem), xfont.HintingNone)
	return int(a), err
}

// GlyphIndex maps a rune through the program's character map (0 if unmapped).
func (ft *Font) GlyphIndex(r rune) int {
	g, err := ft.F.GlyphIndex(&ft.buf, r)
	if err != nil {
		return 0
	}
	return int(g)
}

// RunesOf returns the runes (up to U+1FFFF) that the character map maps to the glyph.
func (ft *Font) RunesOf(gid int) []rune {
	if ft.rev == nil {
		ft.rev = map[uint16][]rune{}
		for r := rune(1); r < 0x20000; r++ {
			if r >= 0xD800 && r < 0xE000 {
				continue
			}
			if g := ft.GlyphIndex(r); g != 0 {
				ft.rev[uint16(g)] = append(ft.rev[uint16(g)], r)
			}
		}
	}
	return ft.rev[uint16(gid)]
}

// ExactOutline reads the outline with the exact readers of this package (glyf.go, cff.go):
// no truncation of implied TrueType points, no rounding of 16.16 charstring operands.
func (ft *Font) ExactOutline(gid int) ([]Seg, error) {
	if !ft.exactTried {
		ft.exactTried = true
		if ft.IsCFF {
			ft.cff, ft.exactErr = OpenCFF(ft.Dir.Tables["CFF "])
		} else {
			ft.tt, ft.exactErr = OpenTT(ft.Dir)
		}
	}
	if ft.exactErr != nil {
		return nil, ft.exactErr
	}
	if ft.cff != nil {
		segs, _, err := ft.cff.Outline(gid)
		return segs, err
	}
	return ft.tt.Outline(gid)
}

// ExactKey is FmtOutline(ExactOutline(gid)), cached; errors are rendered into the key.
func (ft *Font) ExactKey(gid int) string {
	if ft.exact == nil {
		ft.exact = map[int]string{}
	}
	if k, ok := ft.exact[gid]; ok {
		return k
	}
	segs, err := ft.ExactOutline(gid)
	k := ""
	if err != nil {
		k = "error: " + err.Error()
	} else {
		k = FmtOutline(segs)
	}
	ft.exact[gid] = k
	return k
}
