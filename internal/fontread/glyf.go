package fontread

import (
	"encoding/binary"
	"fmt"
)

// TT reads TrueType outlines ('glyf'/'loca', OpenType spec) exactly: implied on-curve points
// are the true midpoints (multiples of 1/2 font unit), composite glyphs are resolved with their
// offsets and 2x2 transforms. Point-matching composites and scaled component offsets are
// reported as unsupported (callers skip and count them).
type TT struct {
	N          int
	Upem       int
	loca       []uint32
	glyf       []byte
	numHM      int
	hmtx       []byte
	Unsupports int
}

// OpenTT reads the tables needed for outlines and advances.
func OpenTT(d *Dir) (*TT, error) {
	head, maxp, loca, glyf := d.Tables["head"], d.Tables["maxp"], d.Tables["loca"], d.Tables["glyf"]
	if len(head) < 54 || len(maxp) < 6 || loca == nil || glyf == nil {
		return nil, fmt.Errorf("truetype: head (%d bytes), maxp (%d), loca (%d) or glyf (%d) missing or short", len(head), len(maxp), len(loca), len(glyf))
	}
	t := &TT{N: int(binary.BigEndian.Uint16(maxp[4:])), Upem: int(binary.BigEndian.Uint16(head[18:])), glyf: glyf}
	long := binary.BigEndian.Uint16(head[50:]) != 0
	t.loca = make([]uint32, t.N+1)
	for i := range t.loca {
		if long {
			if 4*i+4 > len(loca) {
				return nil, fmt.Errorf("truetype: loca has %d bytes, %d glyphs need %d", len(loca), t.N, 4*(t.N+1))
			}
			t.loca[i] = binary.BigEndian.Uint32(loca[4*i:])
		} else {
			if 2*i+2 > len(loca) {
				return nil, fmt.Errorf("truetype: loca has %d bytes, %d glyphs need %d", len(loca), t.N, 2*(t.N+1))
			}
			t.loca[i] = 2 * uint32(binary.BigEndian.Uint16(loca[2*i:]))
		}
		if int(t.loca[i]) > len(glyf) || (i > 0 && t.loca[i] < t.loca[i-1]) {
			return nil, fmt.Errorf("truetype: loca[%d]=%d is not monotone within glyf (%d bytes)", i, t.loca[i], len(glyf))
		}
	}
	if hhea := d.Tables["hhea"]; len(hhea) >= 36 {
		t.numHM = int(binary.BigEndian.Uint16(hhea[34:]))
		t.hmtx = d.Tables["hmtx"]
	}
	return t, nil
}

// Advance reads the advance width from hmtx.
func (t *TT) Advance(gid int) (int, error) {
	if gid < 0 || gid >= t.N || t.numHM == 0 {
		return 0, fmt.Errorf("truetype: no advance for glyph %d", gid)
	}
	k := gid
	if k >= t.numHM {
		k = t.numHM - 1
	}
	if 4*k+2 > len(t.hmtx) {
		return 0, fmt.Errorf("truetype: hmtx too short for glyph %d", gid)
	}
	return int(binary.BigEndian.Uint16(t.hmtx[4*k:])), nil
}

// GlyphData returns the raw bytes of the glyph description.
func (t *TT) GlyphData(gid int) ([]byte, error) {
	if gid < 0 || gid >= t.N {
		return nil, fmt.Errorf("truetype: glyph index %d outside the %d glyphs", gid, t.N)
	}
	return t.glyf[t.loca[gid]:t.loca[gid+1]], nil
}

type ttPoint struct {
	x, y float64
	on   bool
}

// ErrUnsupported marks composite features the reader does not implement.
type ErrUnsupported struct{ What string }

func (e *ErrUnsupported) Error() string { return "truetype: unsupported: " + e.What }

// Outline returns the exact outline (quadratic segments) in font units, y up.
func (t *TT) Outline(gid int) ([]Seg, error) {
	cs, err := t.contours(gid, 0)
	if err != nil {
		return nil, err
	}
	var out []Seg
	for _, c := range cs {
		out = append(out, contourSegs(c)...)
	}
	return out, nil
}

func (t *TT) contours(gid, depth int) ([][]ttPoint, error) {
	if depth > 8 {
		return nil, fmt.Errorf("truetype: composite glyphs nested deeper than 8")
	}
	b, err := t.GlyphData(gid)
	if err != nil {
		return nil, err
	}
	if len(b) == 0 {
		return nil, nil
	}
	if len(b) < 10 {
		return nil, fmt.Errorf("truetype: glyph %d has %d bytes", gid, len(b))
	}
	nc := int(int16(binary.BigEndian.Uint16(b)))
	p := 10
	need := func(n int) error {
		if p+n > len(b) {
			return fmt.Errorf("truetype: glyph %d is truncated", gid)
		}
		return nil
	}
	if nc >= 0 {
		if err := need(2*nc + 2); err != nil {
			return nil, err
		}
		ends := make([]int, nc)
		for i := range ends {
			ends[i] = int(binary.BigEndian.Uint16(b[p:]))
			p += 2
		}
		np := 0
		if nc > 0 {
			np = ends[nc-1] + 1
		}
		il := int(binary.BigEndian.Uint16(b[p:]))
		p += 2
		if err := need(il); err != nil {
			return nil, err
		}
		p += il
		flags := make([]byte, 0, np)
		for len(flags) < np {
			if err := need(1); err != nil {
				return nil, err
			}
			f := b[p]
			p++
			flags = append(flags, f)
			if f&0x08 != 0 {
				if err := need(1); err != nil {
					return nil, err
				}
				for r := int(b[p]); r > 0 && len(flags) < np; r-- {
					flags = append(flags, f)
				}
				p++
			}
		}
		pts := make([]ttPoint, np)
		v := 0
		for i, f := range flags {
			switch {
			case f&0x02 != 0:
				if err := need(1); err != nil {
					return nil, err
				}
				d := int(b[p])
				p++
				if f&0x10 == 0 {
					d = -d
				}
				v += d
			case f&0x10 == 0:
				if err := need(2); err != nil {
					return nil, err
				}
				v += int(int16(binary.BigEndian.Uint16(b[p:])))
				p += 2
			}
			pts[i].x = float64(v)
			pts[i].on = f&0x01 != 0
		}
		v = 0
		for i, f := range flags {
			switch {
			case f&0x04 != 0:
				if err := need(1); err != nil {
					return nil, err
				}
				d := int(b[p])
				p++
				if f&0x20 == 0 {
					d = -d
				}
				v += d
			case f&0x20 == 0:
				if err := need(2); err != nil {
					return nil, err
				}
				v += int(int16(binary.BigEndian.Uint16(b[p:])))
				p += 2
			}
			pts[i].y = float64(v)
		}
		var out [][]ttPoint
		start := 0
		for _, e := range ends {
			if e+1 < start || e+1 > np {
				return nil, fmt.Errorf("truetype: glyph %d: contour end points are not increasing", gid)
			}
			out = append(out, pts[start:e+1])
			start = e + 1
		}
		return out, nil
	}
	// composite
	var out [][]ttPoint
	for {
		if err := need(4); err != nil {
			return nil, err
		}
		flags := binary.BigEndian.Uint16(b[p:])
		comp := int(binary.BigEndian.Uint16(b[p+2:]))
		p += 4
		var dx, dy float64
		if flags&0x0001 != 0 {
			if err := need(4); err != nil {
				return nil, err
			}
			dx, dy = float64(int16(binary.BigEndian.Uint16(b[p:]))), float64(int16(binary.BigEndian.Uint16(b[p+2:])))
			p += 4
		} else {
			if err := need(2); err != nil {
				return nil, err
			}
			dx, dy = float64(int8(b[p])), float64(int8(b[p+1]))
			p += 2
		}
		if flags&0x0002 == 0 {
			return nil, &ErrUnsupported{fmt.Sprintf("glyph %d: component placed by point matching", gid)}
		}
		f2 := func() float64 {
			v := float64(int16(binary.BigEndian.Uint16(b[p:]))) / 16384
			p += 2
			return v
		}
		xx, yx, xy, yy := 1.0, 0.0, 0.0, 1.0
		switch {
		case flags&0x0008 != 0:
			if err := need(2); err != nil {
				return nil, err
			}
			xx = f2()
			yy = xx
		case flags&0x0040 != 0:
			if err := need(4); err != nil {
				return nil, err
			}
			xx = f2()
			yy = f2()
		case flags&0x0080 != 0:
			if err := need(8); err != nil {
				return nil, err
			}
			xx = f2()
			yx = f2()
			xy = f2()
			yy = f2()
		}
		if flags&0x0800 != 0 && (xx != 1 || yy != 1 || xy != 0 || yx != 0) {
			return nil, &ErrUnsupported{fmt.Sprintf("glyph %d: scaled component offset", gid)}
		}
		sub, err := t.contours(comp, depth+1)
		if err != nil {
			return nil, err
		}
		for _, c := range sub {
			cc := make([]ttPoint, len(c))
			for i, q := range c {
				cc[i] = ttPoint{xx*q.x + xy*q.y + dx, yx*q.x + yy*q.y + dy, q.on}
			}
			out = append(out, cc)
		}
		if flags&0x0020 == 0 {
			break
		}
	}
	return out, nil
}

// contourSegs turns one closed contour of on/off-curve points into M, L, Q segments; the last
// segment returns to the start point.
func contourSegs(c []ttPoint) []Seg {
	n := len(c)
	if n == 0 {
		return nil
	}
	mid := func(a, b ttPoint) ttPoint { return ttPoint{(a.x + b.x) / 2, (a.y + b.y) / 2, true} }
	// start at the first point if it is on the curve, else at the last point if that is, else
	// at the midpoint of the two (the usual convention; the geometry does not depend on it)
	var start ttPoint
	var rest []ttPoint
	switch {
	case c[0].on:
		start = c[0]
		rest = append([]ttPoint{}, c[1:]...)
	case c[n-1].on:
		start = c[n-1]
		rest = append([]ttPoint{}, c[:n-1]...)
	default:
		start = mid(c[n-1], c[0])
		rest = append([]ttPoint{}, c...)
	}
	rest = append(rest, start)
	segs := []Seg{{Op: 'M', P: [3][2]float64{{start.x, start.y}}}}
	var ctrl *ttPoint
	for i := range rest {
		p := rest[i]
		switch {
		case p.on && ctrl == nil:
			segs = append(segs, Seg{Op: 'L', P: [3][2]float64{{p.x, p.y}}})
		case p.on:
			segs = append(segs, Seg{Op: 'Q', P: [3][2]float64{{ctrl.x, ctrl.y}, {p.x, p.y}}})
			ctrl = nil
		case ctrl == nil:
			q := p
			ctrl = &q
		default:
			m := mid(*ctrl, p)
			segs = append(segs, Seg{Op: 'Q', P: [3][2]float64{{ctrl.x, ctrl.y}, {m.x, m.y}}})
			q := p
			ctrl = &q
		}
	}
	return segs
}
