package pdfread

import (
	"bytes"
	"compress/zlib"
	"errors"
	"fmt"
	"image/jpeg"
	"io"
)

// Filters returns the filter names of the stream in decoding order.
func (s *Stream) Filters() ([]Name, error) {
	switch v := s.Dict["Filter"].(type) {
	case nil:
		return nil, nil
	case Name:
		return []Name{v}, nil
	case Array:
		var out []Name
		for _, e := range v {
			n, ok := e.(Name)
			if !ok {
				return nil, errors.New("/Filter array element is not a name")
			}
			out = append(out, n)
		}
		return out, nil
	}
	return nil, errors.New("/Filter is neither a name nor an array of names")
}

func (s *Stream) parms(i, n int) (Dict, error) {
	var v Object
	if p, ok := s.Dict["DecodeParms"]; ok {
		v = p
	} else if p, ok := s.Dict["DP"]; ok {
		v = p
	}
	switch p := v.(type) {
	case nil:
		return nil, nil
	case Dict:
		if n == 1 {
			return p, nil
		}
		return nil, errors.New("/DecodeParms is a dictionary but there are several filters")
	case Array:
		if i >= len(p) {
			return nil, nil
		}
		if p[i] == nil {
			return nil, nil
		}
		d, ok := p[i].(Dict)
		if !ok {
			return nil, errors.New("/DecodeParms element is not a dictionary")
		}
		return d, nil
	}
	return nil, errors.New("/DecodeParms has the wrong type (indirect parameters are not supported)")
}

// Decode applies the stream's filters. DCTDecode data is validated by decoding it with
// image/jpeg and returned undecoded (it must be the last filter).
func (s *Stream) Decode() ([]byte, error) {
	fs, err := s.Filters()
	if err != nil {
		return nil, err
	}
	b := s.Raw
	for i, f := range fs {
		pd, err := s.parms(i, len(fs))
		if err != nil {
			return nil, err
		}
		switch f {
		case "FlateDecode", "Fl":
			if pr, ok := pd["Predictor"].(int64); ok && pr != 1 {
				return nil, fmt.Errorf("FlateDecode predictor %d is not supported", pr)
			}
			b, err = inflate(b)
		case "ASCII85Decode", "A85":
			b, err = ASCII85Decode(b)
		case "ASCIIHexDecode", "AHx":
			b, err = ASCIIHexDecode(b)
		case "DCTDecode", "DCT":
			if i != len(fs)-1 {
				return nil, errors.New("DCTDecode is not the last filter")
			}
			_, err = jpeg.Decode(bytes.NewReader(b))
			if err != nil {
				err = fmt.Errorf("DCTDecode: %v", err)
			}
		default:
			return nil, fmt.Errorf("filter /%s is not supported", f)
		}
		if err != nil {
			return nil, err
		}
	}
	return b, nil
}

func inflate(b []byte) ([]byte, error) {
	br := bytes.NewReader(b)
	zr, err := zlib.NewReader(br)
	if err != nil {
		return nil, fmt.Errorf("FlateDecode: %v", err)
	}
	out, err := io.ReadAll(zr)
	if err != nil {
		return nil, fmt.Errorf("FlateDecode: %v", err)
	}
	if err := zr.Close(); err != nil {
		return nil, fmt.Errorf("FlateDecode: %v", err)
	}
	if br.Len() != 0 {
		return nil, fmt.Errorf("FlateDecode: %d bytes follow the end of the zlib stream", br.Len())
	}
	return out, nil
}

// ASCII85Decode implements 7.4.3: groups of five characters '!'..'u' make four bytes, 'z' is
// four zero bytes, white space is ignored, "~>" ends the data, a final partial group of n
// characters yields n-1 bytes.
func ASCII85Decode(b []byte) ([]byte, error) {
	var out []byte
	var grp [5]byte
	n := 0
	i := 0
	ended := false
	for i < len(b) {
		c := b[i]
		i++
		if IsWhite(c) {
			continue
		}
		if c == '~' {
			for i < len(b) && IsWhite(b[i]) {
				i++
			}
			if i >= len(b) || b[i] != '>' {
				return nil, errors.New("ASCII85Decode: '~' not followed by '>'")
			}
			i++
			ended = true
			break
		}
		if c == 'z' {
			if n != 0 {
				return nil, errors.New("ASCII85Decode: 'z' inside a group")
			}
			out = append(out, 0, 0, 0, 0)
			continue
		}
		if c < '!' || c > 'u' {
			return nil, fmt.Errorf("ASCII85Decode: invalid character %q", c)
		}
		grp[n] = c - '!'
		n++
		if n == 5 {
			var v uint64
			for _, g := range grp {
				v = v*85 + uint64(g)
			}
			if v > 0xFFFFFFFF {
				return nil, errors.New("ASCII85Decode: group value exceeds 2^32-1")
			}
			out = append(out, byte(v>>24), byte(v>>16), byte(v>>8), byte(v))
			n = 0
		}
	}
	if !ended {
		return nil, errors.New("ASCII85Decode: missing '~>' end-of-data marker")
	}
	for ; i < len(b); i++ {
		if !IsWhite(b[i]) {
			return nil, errors.New("ASCII85Decode: data after '~>'")
		}
	}
	if n == 1 {
		return nil, errors.New("ASCII85Decode: final group of a single character")
	}
	if n > 1 {
		for k := n; k < 5; k++ {
			grp[k] = 84
		}
		var v uint64
		for _, g := range grp {
			v = v*85 + uint64(g)
		}
		if v > 0xFFFFFFFF {
			return nil, errors.New("ASCII85Decode: group value exceeds 2^32-1")
		}
		full := []byte{byte(v >> 24), byte(v >> 16), byte(v >> 8), byte(v)}
		out = append(out, full[:n-1]...)
	}
	if out == nil {
		out = []byte{}
	}
	return out, nil
}

// ASCIIHexDecode implements 7.4.2.
func ASCIIHexDecode(b []byte) ([]byte, error) {
	out := []byte{}
	half := -1
	for i, c := range b {
		if IsWhite(c) {
			continue
		}
		if c == '>' {
			if half >= 0 {
				out = append(out, byte(half<<4))
			}
			for _, r := range b[i+1:] {
				if !IsWhite(r) {
					return nil, errors.New("ASCIIHexDecode: data after '>'")
				}
			}
			return out, nil
		}
		v := hexVal(c)
		if v < 0 {
			return nil, fmt.Errorf("ASCIIHexDecode: invalid character %q", c)
		}
		if half < 0 {
			half = v
		} else {
			out = append(out, byte(half<<4|v))
			half = -1
		}
	}
	return nil, errors.New("ASCIIHexDecode: missing '>' end-of-data marker")
}
