package pdfread

import (
	"bytes"
	"errors"
	"fmt"
	"sort"
)

// IndirectObject is "Num Gen obj ... endobj" found in the file.
type IndirectObject struct {
	Num, Gen int
	Offset   int // offset of the first digit of Num
	End      int // offset just after "endobj"
	Value    Object
}

// XrefEntry is one 20-byte entry of the cross-reference table.
type XrefEntry struct {
	Offset int64 // byte offset (in use) or next free object number (free)
	Gen    int
	InUse  bool
}

// Doc is a parsed file.
type Doc struct {
	Data    []byte
	Version string // "1.7"
	// Xref maps object number to its table entry (latest section wins along /Prev chains).
	Xref       map[int]XrefEntry
	XrefOffset int // value after startxref
	Trailer    Dict
	// Objects maps object number to the object the cross-reference table points at. If the
	// offset is wrong, the object of that number found by the sequential body scan is used
	// instead (and a Problem of class "xref-offset" is recorded) so that later checks can go on.
	Objects map[int]*IndirectObject
	// Body lists every "n g obj" found by scanning the body sequentially from the header to
	// the first xref keyword, in file order. It does not depend on the cross-reference table.
	Body []*IndirectObject
	// Problems lists every violation of the file structure found while parsing.
	Problems []Problem
}

// FatalError is returned by Parse when the file structure cannot be established; Class names
// the clause (header, trailer-eof, startxref, xref, trailer, unsupported).
type FatalError struct {
	Class string
	Msg   string
}

func (e *FatalError) Error() string { return e.Class + ": " + e.Msg }

func fatal(class, format string, a ...interface{}) error {
	return &FatalError{class, fmt.Sprintf(format, a...)}
}

func (d *Doc) problem(class, format string, a ...interface{}) {
	d.Problems = append(d.Problems, Problem{class, fmt.Sprintf(format, a...)})
}

// objParser parses objects from a byte slice. When doc is non-nil, streams are read (their
// Length may be an indirect reference which is resolved through doc.Xref).
type objParser struct {
	lexer
	doc       *Doc
	content   bool // content-stream mode: no indirect references, no streams
	dupKeys   []string
	depth     int
	streamErr []Problem
}

var errDepth = errors.New("objects nested too deeply")

func (p *objParser) parseObject() (Object, error) {
	t, err := p.next()
	if err != nil {
		return nil, err
	}
	return p.parseFrom(t)
}

func (p *objParser) parseFrom(t token) (Object, error) {
	p.depth++
	defer func() { p.depth-- }()
	if p.depth > 200 {
		return nil, errDepth
	}
	switch t.kind {
	case tEOF:
		return nil, fmt.Errorf("offset %d: unexpected end of data", t.pos)
	case tInt:
		if !p.content {
			// look ahead for "gen R"
			save := p.pos
			t2, err := p.next()
			if err == nil && t2.kind == tInt && t2.i >= 0 && t.i >= 0 {
				t3, err := p.next()
				if err == nil && t3.kind == tKeyword && string(t3.s) == "R" {
					return Ref{int(t.i), int(t2.i)}, nil
				}
			}
			p.pos = save
		}
		return t.i, nil
	case tReal:
		return t.f, nil
	case tString:
		return String{B: t.s, Hex: t.hex}, nil
	case tName:
		return Name(t.s), nil
	case tArrOpen:
		arr := Array{}
		for {
			t2, err := p.next()
			if err != nil {
				return nil, err
			}
			if t2.kind == tArrClose {
				return arr, nil
			}
			if t2.kind == tEOF {
				return nil, fmt.Errorf("offset %d: unterminated array", t.pos)
			}
			o, err := p.parseFrom(t2)
			if err != nil {
				return nil, err
			}
			arr = append(arr, o)
		}
	case tDictOpen:
		d := Dict{}
		for {
			t2, err := p.next()
			if err != nil {
				return nil, err
			}
			if t2.kind == tDictClose {
				return d, nil
			}
			if t2.kind != tName {
				return nil, fmt.Errorf("offset %d: dictionary key is not a name", t2.pos)
			}
			v, err := p.parseObject()
			if err != nil {
				return nil, err
			}
			if _, dup := d[Name(t2.s)]; dup {
				p.dupKeys = append(p.dupKeys, fmt.Sprintf("offset %d: key /%s", t2.pos, t2.s))
			}
			d[Name(t2.s)] = v
		}
	case tKeyword:
		switch string(t.s) {
		case "true":
			return true, nil
		case "false":
			return false, nil
		case "null":
			return nil, nil
		}
		return nil, fmt.Errorf("offset %d: unexpected keyword %q", t.pos, t.s)
	}
	return nil, fmt.Errorf("offset %d: unexpected token", t.pos)
}

func hasPrefixAt(b []byte, pos int, s string) bool {
	return pos >= 0 && pos+len(s) <= len(b) && string(b[pos:pos+len(s)]) == s
}

// parseIndirect parses "n g obj <object> [stream] endobj" with the first digit exactly at off.
func (d *Doc) parseIndirect(off int) (*IndirectObject, error) {
	if off < 0 || off >= len(d.Data) {
		return nil, fmt.Errorf("offset %d outside the file", off)
	}
	if c := d.Data[off]; c < '0' || c > '9' {
		return nil, fmt.Errorf("offset %d: expected object number, found %q", off, snippet(d.Data, off))
	}
	p := &objParser{lexer: lexer{b: d.Data, pos: off}, doc: d}
	t1, err := p.next()
	if err != nil || t1.kind != tInt {
		return nil, fmt.Errorf("offset %d: expected object number, found %q", off, snippet(d.Data, off))
	}
	t2, err := p.next()
	if err != nil || t2.kind != tInt {
		return nil, fmt.Errorf("offset %d: expected generation number, found %q", off, snippet(d.Data, off))
	}
	t3, err := p.next()
	if err != nil || t3.kind != tKeyword || string(t3.s) != "obj" {
		return nil, fmt.Errorf("offset %d: expected 'obj', found %q", off, snippet(d.Data, off))
	}
	io := &IndirectObject{Num: int(t1.i), Gen: int(t2.i), Offset: off}
	val, err := p.parseObject()
	if err != nil {
		return nil, fmt.Errorf("object %d: %v", io.Num, err)
	}
	for _, k := range p.dupKeys {
		d.problem("dict-duplicate-key", "object %d: %s", io.Num, k)
	}
	save := p.pos
	t, err := p.next()
	if err != nil {
		return nil, fmt.Errorf("object %d: %v", io.Num, err)
	}
	if t.kind == tKeyword && string(t.s) == "stream" {
		dict, ok := val.(Dict)
		if !ok {
			return nil, fmt.Errorf("object %d: stream keyword after a non-dictionary", io.Num)
		}
		st, end, err := d.readStream(io.Num, dict, t.pos+len("stream"))
		if err != nil {
			return nil, err
		}
		val = st
		p.pos = end
		t, err = p.next()
		if err != nil {
			return nil, fmt.Errorf("object %d: %v", io.Num, err)
		}
	} else {
		_ = save
	}
	if t.kind != tKeyword || string(t.s) != "endobj" {
		return nil, fmt.Errorf("object %d: expected 'endobj' at offset %d, found %q", io.Num, t.pos, snippet(d.Data, t.pos))
	}
	io.Value = val
	io.End = p.pos
	return io, nil
}

func snippet(b []byte, off int) string {
	if off < 0 || off >= len(b) {
		return ""
	}
	e := off + 24
	if e > len(b) {
		e = len(b)
	}
	return string(b[off:e])
}

// readStream reads the stream data starting after the "stream" keyword at pos (7.3.8.1): the
// keyword is followed by CRLF or LF (not CR alone); then exactly Length bytes; then an optional
// end-of-line marker and "endstream". Returns the offset after "endstream".
func (d *Doc) readStream(num int, dict Dict, pos int) (*Stream, int, error) {
	b := d.Data
	switch {
	case hasPrefixAt(b, pos, "\r\n"):
		pos += 2
	case hasPrefixAt(b, pos, "\n"):
		pos++
	default:
		d.problem("stream-keyword-eol", "object %d: 'stream' not followed by LF or CRLF", num)
		if hasPrefixAt(b, pos, "\r") {
			pos++
		}
	}
	st := &Stream{Dict: dict, Offset: pos}
	length := int64(-1)
	switch v := dict["Length"].(type) {
	case int64:
		length = v
	case Ref:
		if e, ok := d.Xref[v.Num]; ok && e.InUse {
			if io, err := d.parseIndirectNoStream(int(e.Offset)); err == nil && io.Num == v.Num {
				if n, ok := io.Value.(int64); ok {
					length = n
				}
			}
		}
		if length < 0 {
			d.problem("stream-length", "object %d: indirect /Length %v does not resolve to an integer", num, v)
		}
	case nil:
		d.problem("stream-length", "object %d: stream dictionary has no /Length", num)
	default:
		d.problem("stream-length", "object %d: /Length is not an integer", num)
	}
	if length >= 0 && int64(pos)+length <= int64(len(b)) {
		e := pos + int(length)
		q := e
		if hasPrefixAt(b, q, "\r\n") {
			q += 2
		} else if hasPrefixAt(b, q, "\n") || hasPrefixAt(b, q, "\r") {
			q++
		}
		if hasPrefixAt(b, q, "endstream") {
			st.Raw = b[pos:e]
			st.LengthOK = true
			return st, q + len("endstream"), nil
		}
	}
	// Length is wrong: find the keyword to be able to go on
	k := bytes.Index(b[pos:], []byte("endstream"))
	if k < 0 {
		return nil, 0, fmt.Errorf("object %d: no 'endstream' after stream data", num)
	}
	e := pos + k
	if e > pos && b[e-1] == '\n' {
		e--
		if e > pos && b[e-1] == '\r' {
			e--
		}
	} else if e > pos && b[e-1] == '\r' {
		e--
	}
	if length >= 0 {
		d.problem("stream-length", "object %d: /Length %d but 'endstream' follows after %d bytes of data", num, length, e-pos)
	}
	st.Raw = b[pos:e]
	return st, pos + k + len("endstream"), nil
}

// parseIndirectNoStream parses an indirect object that is not a stream (used for /Length).
func (d *Doc) parseIndirectNoStream(off int) (*IndirectObject, error) {
	if off < 0 || off >= len(d.Data) {
		return nil, fmt.Errorf("offset outside the file")
	}
	p := &objParser{lexer: lexer{b: d.Data, pos: off}}
	t1, err := p.next()
	if err != nil || t1.kind != tInt {
		return nil, fmt.Errorf("no object")
	}
	t2, err := p.next()
	if err != nil || t2.kind != tInt {
		return nil, fmt.Errorf("no object")
	}
	t3, err := p.next()
	if err != nil || t3.kind != tKeyword || string(t3.s) != "obj" {
		return nil, fmt.Errorf("no object")
	}
	v, err := p.parseObject()
	if err != nil {
		return nil, err
	}
	return &IndirectObject{Num: int(t1.i), Gen: int(t2.i), Offset: off, Value: v}, nil
}

func isEOLByte(c byte) bool { return c == '\n' || c == '\r' }

// readLineBack returns the line that ends at end (exclusive, EOL already stripped) and the
// offset where the preceding line's EOL-stripped content ends.
func readLineBack(b []byte, end int) (line []byte, start int, prevEnd int) {
	s := end
	for s > 0 && !isEOLByte(b[s-1]) {
		s--
	}
	line = b[s:end]
	pe := s
	if pe > 0 && b[pe-1] == '\n' {
		pe--
		if pe > 0 && b[pe-1] == '\r' {
			pe--
		}
	} else if pe > 0 && b[pe-1] == '\r' {
		pe--
	}
	return line, s, pe
}

// Parse reads a complete PDF file. A returned error means the file structure could not be
// established at all; everything else is in doc.Problems.
func Parse(data []byte) (*Doc, error) {
	d := &Doc{Data: data, Xref: map[int]XrefEntry{}, Objects: map[int]*IndirectObject{}}

	// 7.5.2 header
	if !bytes.HasPrefix(data, []byte("%PDF-")) {
		return d, fatal("header", "file does not start with %%PDF-")
	}
	hl := 0
	for hl < len(data) && !isEOLByte(data[hl]) {
		hl++
	}
	d.Version = string(data[5:hl])
	if len(d.Version) != 3 || d.Version[1] != '.' || d.Version[0] < '1' || d.Version[0] > '2' || d.Version[2] < '0' || d.Version[2] > '9' {
		d.problem("header", "version %q is not of the form 1.N", d.Version)
	}
	// binary comment line (recommended when the file contains binary data): not required

	// 7.5.5 end of file: startxref EOL offset EOL %%EOF [EOL]
	end := len(data)
	if end > 0 && data[end-1] == '\n' {
		end--
		if end > 0 && data[end-1] == '\r' {
			end--
		}
	} else if end > 0 && data[end-1] == '\r' {
		end--
	}
	line, _, prev := readLineBack(data, end)
	if string(line) != "%%EOF" {
		return d, fatal("trailer-eof", "last line is %q, not %%%%EOF", clip(line))
	}
	line, _, prev = readLineBack(data, prev)
	isInt, off, _, ok := parseNumber(bytes.TrimSpace(line))
	if !ok || !isInt || off < 0 {
		return d, fatal("startxref", "line before %%%%EOF is %q, not a byte offset", clip(line))
	}
	line, _, _ = readLineBack(data, prev)
	if string(bytes.TrimSpace(line)) != "startxref" {
		return d, fatal("startxref", "expected 'startxref' line, found %q", clip(line))
	}
	d.XrefOffset = int(off)

	// 7.5.4 cross-reference table(s)
	seen := map[int]bool{}
	xoff := int(off)
	first := true
	for {
		if seen[xoff] {
			d.problem("xref", "/Prev chain loops at offset %d", xoff)
			break
		}
		seen[xoff] = true
		tr, err := d.parseXrefSection(xoff)
		if err != nil {
			if first {
				return d, err
			}
			d.problem("xref", "previous section: %v", err)
			break
		}
		if first {
			d.Trailer = tr
			first = false
		}
		pv, ok := tr["Prev"].(int64)
		if !ok {
			break
		}
		xoff = int(pv)
	}

	// trailer dictionary (Table 15)
	size, ok := d.Trailer["Size"].(int64)
	if !ok {
		d.problem("trailer-size", "trailer has no integer /Size")
	} else {
		max := -1
		for n := range d.Xref {
			if n > max {
				max = n
			}
		}
		if int64(max+1) != size {
			d.problem("trailer-size", "/Size is %d but the highest object number in the table is %d", size, max)
		}
		for n := 0; n < int(size); n++ {
			if _, ok := d.Xref[n]; !ok {
				d.problem("xref", "no entry for object %d although /Size is %d", n, size)
				break
			}
		}
	}
	if e, ok := d.Xref[0]; !ok || e.InUse || e.Gen != 65535 {
		d.problem("xref", "entry 0 must be free with generation 65535")
	}
	if _, ok := d.Trailer["Root"].(Ref); !ok {
		d.problem("trailer-root", "trailer /Root is not an indirect reference")
	}
	if v, ok := d.Trailer["Info"]; ok {
		if _, ok := v.(Ref); !ok {
			d.problem("trailer-info", "trailer /Info is not an indirect reference")
		}
	}
	if _, ok := d.Trailer["Encrypt"]; ok {
		return d, fatal("unsupported", "encrypted files are not supported")
	}

	// body, independent of the table
	d.scanBody(hl)
	byNum := map[int]*IndirectObject{}
	for _, io := range d.Body {
		if o, dup := byNum[io.Num]; dup {
			d.problem("object-duplicate", "object %d defined at offsets %d and %d", io.Num, o.Offset, io.Offset)
		}
		byNum[io.Num] = io // the later definition wins, as for incremental updates
	}

	// table -> file
	nums := make([]int, 0, len(d.Xref))
	for n := range d.Xref {
		nums = append(nums, n)
	}
	sort.Ints(nums)
	for _, n := range nums {
		e := d.Xref[n]
		if !e.InUse {
			continue
		}
		io, err := d.parseIndirect(int(e.Offset))
		switch {
		case err != nil:
			d.problem("xref-offset", "entry %d points at offset %d: %v", n, e.Offset, err)
		case io.Num != n || io.Gen != e.Gen:
			d.problem("xref-offset", "entry %d (gen %d) points at offset %d where object %d %d starts", n, e.Gen, e.Offset, io.Num, io.Gen)
			io = nil
		}
		if err != nil || io == nil {
			if b, ok := byNum[n]; ok {
				d.Objects[n] = b
			}
			continue
		}
		d.Objects[n] = io
	}
	// file -> table: every object of the body must be listed
	for _, io := range d.Body {
		e, ok := d.Xref[io.Num]
		if !ok || !e.InUse {
			d.problem("xref-missing-object", "object %d at offset %d is not listed as in use", io.Num, io.Offset)
		} else if byNum[io.Num] == io && int(e.Offset) != io.Offset {
			d.problem("xref-offset", "object %d starts at offset %d but the table says %d", io.Num, io.Offset, e.Offset)
		}
	}
	d.dedupProblems()
	return d, nil
}

func (d *Doc) dedupProblems() {
	seen := map[Problem]bool{}
	out := d.Problems[:0]
	for _, p := range d.Problems {
		if !seen[p] {
			seen[p] = true
			out = append(out, p)
		}
	}
	d.Problems = out
}

func clip(b []byte) string {
	if len(b) > 40 {
		b = b[:40]
	}
	return string(b)
}

// parseXrefSection parses "xref" subsections and the trailer dictionary at off.
func (d *Doc) parseXrefSection(off int) (Dict, error) {
	b := d.Data
	if !hasPrefixAt(b, off, "xref") {
		if off >= 0 && off < len(b) && b[off] >= '0' && b[off] <= '9' {
			return nil, fatal("unsupported", "startxref %d: cross-reference streams are not supported (found %q)", off, snippet(b, off))
		}
		return nil, fatal("startxref", "offset %d does not point at the 'xref' keyword (found %q)", off, snippet(b, off))
	}
	pos := off + 4
	if hasPrefixAt(b, pos, "\r\n") {
		pos += 2
	} else if pos < len(b) && isEOLByte(b[pos]) {
		pos++
	} else {
		d.problem("xref", "'xref' keyword not followed by an end-of-line marker")
	}
	for {
		// subsection header or "trailer"
		for pos < len(b) && IsWhite(b[pos]) {
			pos++
		}
		if hasPrefixAt(b, pos, "trailer") {
			pos += len("trailer")
			break
		}
		l := &lexer{b: b, pos: pos}
		t1, err1 := l.next()
		t2, err2 := l.next()
		if err1 != nil || err2 != nil || t1.kind != tInt || t2.kind != tInt || t1.i < 0 || t2.i < 0 {
			return nil, fatal("xref", "bad subsection header at offset %d: %q", pos, snippet(b, pos))
		}
		pos = l.pos
		// single EOL after the header
		if hasPrefixAt(b, pos, "\r\n") {
			pos += 2
		} else if pos < len(b) && isEOLByte(b[pos]) {
			pos++
		} else if pos < len(b) && b[pos] == ' ' {
			for pos < len(b) && b[pos] == ' ' {
				pos++
			}
			if hasPrefixAt(b, pos, "\r\n") {
				pos += 2
			} else if pos < len(b) && isEOLByte(b[pos]) {
				pos++
			}
		}
		firstNum, count := int(t1.i), int(t2.i)
		for k := 0; k < count; k++ {
			if pos+20 > len(b) {
				return nil, fatal("xref", "table truncated at entry %d", firstNum+k)
			}
			e := b[pos : pos+20]
			okFmt := e[10] == ' ' && e[16] == ' ' && (e[17] == 'n' || e[17] == 'f') &&
				((e[18] == ' ' && (e[19] == '\n' || e[19] == '\r')) || (e[18] == '\r' && e[19] == '\n'))
			for _, c := range e[0:10] {
				if c < '0' || c > '9' {
					okFmt = false
				}
			}
			for _, c := range e[11:16] {
				if c < '0' || c > '9' {
					okFmt = false
				}
			}
			if !okFmt {
				return nil, fatal("xref", "entry %d is not in the 20-byte format 'nnnnnnnnnn ggggg n eol': %q", firstNum+k, e)
			}
			var o int64
			for _, c := range e[0:10] {
				o = o*10 + int64(c-'0')
			}
			g := 0
			for _, c := range e[11:16] {
				g = g*10 + int(c-'0')
			}
			n := firstNum + k
			if _, have := d.Xref[n]; !have { // newer sections win
				d.Xref[n] = XrefEntry{Offset: o, Gen: g, InUse: e[17] == 'n'}
			}
			pos += 20
		}
	}
	p := &objParser{lexer: lexer{b: b, pos: pos}}
	v, err := p.parseObject()
	if err != nil {
		return nil, fatal("trailer", "%v", err)
	}
	tr, ok := v.(Dict)
	if !ok {
		return nil, fatal("trailer", "not a dictionary")
	}
	for _, k := range p.dupKeys {
		d.problem("dict-duplicate-key", "trailer: %s", k)
	}
	// after the dictionary: startxref
	t, err := p.next()
	if err != nil || t.kind != tKeyword || string(t.s) != "startxref" {
		d.problem("trailer", "trailer dictionary is not followed by 'startxref'")
	}
	return tr, nil
}

// scanBody walks the body from the end of the header line: comments, white space and indirect
// objects, until a keyword that is not part of an object ("xref", "trailer", "startxref").
func (d *Doc) scanBody(pos int) {
	b := d.Data
	for {
		l := &lexer{b: b, pos: pos}
		l.skipWS()
		pos = l.pos
		if pos >= len(b) {
			return
		}
		if b[pos] >= '0' && b[pos] <= '9' {
			io, err := d.parseIndirect(pos)
			if err == nil {
				d.Body = append(d.Body, io)
				pos = io.End
				continue
			}
			d.problem("object-syntax", "at offset %d: %v", pos, err)
			// resynchronise after the next endobj
			k := bytes.Index(b[pos:], []byte("endobj"))
			if k < 0 {
				return
			}
			pos += k + len("endobj")
			continue
		}
		if hasPrefixAt(b, pos, "xref") || hasPrefixAt(b, pos, "trailer") || hasPrefixAt(b, pos, "startxref") {
			// a later body section (incremental update) may follow the %%EOF of this one
			k := bytes.Index(b[pos:], []byte("%%EOF"))
			if k < 0 {
				return
			}
			pos += k + len("%%EOF")
			continue
		}
		d.problem("object-syntax", "unexpected data in the body at offset %d: %q", pos, snippet(b, pos))
		k := bytes.Index(b[pos:], []byte("endobj"))
		if k < 0 {
			return
		}
		pos += k + len("endobj")
	}
}

// Resolve follows indirect references. A reference to an object that does not exist (or is
// free) yields nil, as 7.3.10 prescribes; use CheckRefs to find those.
func (d *Doc) Resolve(o Object) Object {
	for i := 0; i < 32; i++ {
		r, ok := o.(Ref)
		if !ok {
			return o
		}
		io := d.Objects[r.Num]
		if io == nil || io.Gen != r.Gen {
			return nil
		}
		o = io.Value
	}
	return nil
}

// Dict resolves o and returns it as a dictionary (the dictionary of a stream for streams).
func (d *Doc) Dict(o Object) (Dict, bool) {
	switch v := d.Resolve(o).(type) {
	case Dict:
		return v, true
	case *Stream:
		return v.Dict, true
	}
	return nil, false
}

// Walk calls f for o and every object nested in it (not following references).
func Walk(o Object, f func(Object)) {
	f(o)
	switch v := o.(type) {
	case Array:
		for _, e := range v {
			Walk(e, f)
		}
	case Dict:
		keys := make([]string, 0, len(v))
		for k := range v {
			keys = append(keys, string(k))
		}
		sort.Strings(keys)
		for _, k := range keys {
			Walk(v[Name(k)], f)
		}
	case *Stream:
		Walk(v.Dict, f)
	}
}

// CheckRefs reports every indirect reference (in any object and in the trailer) that does not
// resolve to an in-use object of the same generation.
func (d *Doc) CheckRefs() []Problem {
	var out []Problem
	check := func(where string, o Object) {
		Walk(o, func(x Object) {
			r, ok := x.(Ref)
			if !ok {
				return
			}
			e, listed := d.Xref[r.Num]
			io := d.Objects[r.Num]
			switch {
			case !listed || !e.InUse:
				out = append(out, Problem{"dangling-ref", fmt.Sprintf("%s refers to %v which is not an in-use object", where, r)})
			case io == nil:
				out = append(out, Problem{"dangling-ref", fmt.Sprintf("%s refers to %v but no such object is in the file", where, r)})
			case io.Gen != r.Gen:
				out = append(out, Problem{"dangling-ref", fmt.Sprintf("%s refers to %v but the object has generation %d", where, r, io.Gen)})
			}
		})
	}
	check("trailer", d.Trailer)
	nums := make([]int, 0, len(d.Objects))
	for n := range d.Objects {
		nums = append(nums, n)
	}
	sort.Ints(nums)
	for _, n := range nums {
		check(fmt.Sprintf("object %d", n), d.Objects[n].Value)
	}
	return out
}

// Num converts an integer or real object to float64.
func Num(o Object) (float64, bool) {
	switch v := o.(type) {
	case int64:
		return float64(v), true
	case float64:
		return v, true
	}
	return 0, false
}
