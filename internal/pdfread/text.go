package pdfread

import (
	"fmt"
	"unicode/utf16"
	"unicode/utf8"
)

// pdfDocHigh is PDFDocEncoding (Annex D.2) for the codes that differ from Latin-1.
var pdfDocHigh = map[byte]rune{
	0x18: 0x02D8, 0x19: 0x02C7, 0x1A: 0x02C6, 0x1B: 0x02D9, 0x1C: 0x02DD, 0x1D: 0x02DB, 0x1E: 0x02DA, 0x1F: 0x02DC,
	0x80: 0x2022, 0x81: 0x2020, 0x82: 0x2021, 0x83: 0x2026, 0x84: 0x2014, 0x85: 0x2013, 0x86: 0x0192, 0x87: 0x2044,
	0x88: 0x2039, 0x89: 0x203A, 0x8A: 0x2212, 0x8B: 0x2030, 0x8C: 0x201E, 0x8D: 0x201C, 0x8E: 0x201D, 0x8F: 0x2018,
	0x90: 0x2019, 0x91: 0x201A, 0x92: 0x2122, 0x93: 0xFB01, 0x94: 0xFB02, 0x95: 0x0141, 0x96: 0x0152, 0x97: 0x0160,
	0x98: 0x0178, 0x99: 0x017D, 0x9A: 0x0131, 0x9B: 0x0142, 0x9C: 0x0153, 0x9D: 0x0161, 0x9E: 0x017E,
	0xA0: 0x20AC,
}

// DecodeTextString decodes a text string (7.9.2.2): UTF-16BE when it starts with the byte order
// mark FE FF, UTF-8 when it starts with EF BB BF (PDF 2.0), PDFDocEncoding otherwise. Bytes that
// have no meaning in the encoding (undefined PDFDocEncoding codes, odd UTF-16 length, unpaired
// surrogates, invalid UTF-8) are reported as an error; the best-effort string is still returned.
func DecodeTextString(b []byte) (string, error) {
	var firstErr error
	fail := func(f string, a ...interface{}) {
		if firstErr == nil {
			firstErr = fmt.Errorf(f, a...)
		}
	}
	if len(b) >= 2 && b[0] == 0xFE && b[1] == 0xFF {
		b = b[2:]
		if len(b)%2 == 1 {
			fail("UTF-16BE text string has an odd number of bytes (%d after the byte order mark)", len(b))
			b = b[:len(b)-1]
		}
		us := make([]uint16, len(b)/2)
		for i := range us {
			us[i] = uint16(b[2*i])<<8 | uint16(b[2*i+1])
		}
		var out []rune
		for i := 0; i < len(us); i++ {
			u := us[i]
			switch {
			case 0xD800 <= u && u < 0xDC00:
				if i+1 < len(us) && 0xDC00 <= us[i+1] && us[i+1] < 0xE000 {
					out = append(out, utf16.DecodeRune(rune(u), rune(us[i+1])))
					i++
				} else {
					fail("unpaired high surrogate %04X", u)
					out = append(out, utf8.RuneError)
				}
			case 0xDC00 <= u && u < 0xE000:
				fail("unpaired low surrogate %04X", u)
				out = append(out, utf8.RuneError)
			default:
				out = append(out, rune(u))
			}
		}
		return string(out), firstErr
	}
	if len(b) >= 3 && b[0] == 0xEF && b[1] == 0xBB && b[2] == 0xBF {
		if !utf8.Valid(b[3:]) {
			fail("invalid UTF-8 text string")
		}
		return string(b[3:]), firstErr
	}
	out := make([]rune, 0, len(b))
	for _, c := range b {
		switch {
		case c == 9 || c == 10 || c == 13:
			out = append(out, rune(c))
		case c < 0x18 || c == 0x7F || c == 0x9F || c == 0xAD:
			fail("byte %02X is undefined in PDFDocEncoding", c)
			out = append(out, utf8.RuneError)
		default:
			if r, ok := pdfDocHigh[c]; ok {
				out = append(out, r)
			} else {
				out = append(out, rune(c))
			}
		}
	}
	return string(out), firstErr
}
