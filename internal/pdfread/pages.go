package pdfread

import (
	"fmt"
)

// Page is one leaf of the page tree.
type Page struct {
	Ref       Ref
	Dict      Dict
	Resources Dict       // resolved, after inheritance; empty Dict if absent
	MediaBox  [4]float64 // after inheritance
	HasBox    bool
	Streams   []*Stream // the content streams in order
	Content   []byte    // decoded content streams joined by a newline (7.8.2)
	Annots    []Dict
}

// Catalog returns the document catalog.
func (d *Doc) Catalog() (Dict, error) {
	r, ok := d.Trailer["Root"].(Ref)
	if !ok {
		return nil, fmt.Errorf("trailer /Root is not a reference")
	}
	c, ok := d.Resolve(r).(Dict)
	if !ok {
		return nil, fmt.Errorf("catalog %v is not a dictionary", r)
	}
	return c, nil
}

// Info returns the document information dictionary (nil if the trailer has none).
func (d *Doc) Info() (Dict, error) {
	v, ok := d.Trailer["Info"]
	if !ok {
		return nil, nil
	}
	i, ok := d.Resolve(v).(Dict)
	if !ok {
		return nil, fmt.Errorf("/Info %v is not a dictionary", v)
	}
	return i, nil
}

// Pages walks the page tree (7.7.3) depth-first and returns the leaves in document order,
// together with every structural problem: wrong /Type, /Parent not pointing back, /Count not
// equal to the number of leaves below the node, kids that are not references, cycles, missing
// MediaBox, undecodable content.
func (d *Doc) Pages() ([]*Page, []Problem) {
	var probs []Problem
	bad := func(class, f string, a ...interface{}) {
		probs = append(probs, Problem{class, fmt.Sprintf(f, a...)})
	}
	cat, err := d.Catalog()
	if err != nil {
		bad("catalog", "%v", err)
		return nil, probs
	}
	if t, _ := cat["Type"].(Name); t != "Catalog" {
		bad("catalog", "catalog /Type is %v, not /Catalog", cat["Type"])
	}
	rootRef, ok := cat["Pages"].(Ref)
	if !ok {
		bad("page-tree", "catalog /Pages is not an indirect reference")
		return nil, probs
	}
	var pages []*Page
	visiting := map[int]bool{}
	type inherit struct {
		res    Object
		box    Object
		hasRes bool
		hasBox bool
	}
	var walk func(ref Ref, parent *Ref, inh inherit) int
	walk = func(ref Ref, parent *Ref, inh inherit) int {
		if visiting[ref.Num] {
			bad("page-tree", "object %v occurs twice in the page tree", ref)
			return 0
		}
		visiting[ref.Num] = true
		node, ok := d.Resolve(ref).(Dict)
		if !ok {
			bad("page-tree", "page tree node %v is not a dictionary", ref)
			return 0
		}
		if parent == nil {
			if _, has := node["Parent"]; has {
				bad("page-tree", "root node %v has a /Parent", ref)
			}
		} else if p, ok := node["Parent"].(Ref); !ok || p != *parent {
			bad("page-parent", "node %v: /Parent is %v, expected %v", ref, node["Parent"], *parent)
		}
		if v, ok := node["Resources"]; ok {
			inh.res, inh.hasRes = v, true
		}
		if v, ok := node["MediaBox"]; ok {
			inh.box, inh.hasBox = v, true
		}
		switch t, _ := node["Type"].(Name); t {
		case "Pages":
			kids, ok := d.Resolve(node["Kids"]).(Array)
			if !ok {
				bad("page-tree", "node %v: /Kids is not an array", ref)
				return 0
			}
			leaves := 0
			for _, k := range kids {
				kr, ok := k.(Ref)
				if !ok {
					bad("page-tree", "node %v: a kid is not an indirect reference", ref)
					continue
				}
				leaves += walk(kr, &ref, inh)
			}
			cnt, ok := d.Resolve(node["Count"]).(int64)
			if !ok {
				bad("page-count", "node %v: /Count is not an integer", ref)
			} else if int(cnt) != leaves {
				bad("page-count", "node %v: /Count is %d but %d page objects are below it", ref, cnt, leaves)
			}
			return leaves
		case "Page":
			pg := &Page{Ref: ref, Dict: node, Resources: Dict{}}
			if parent == nil {
				bad("page-tree", "the root of the page tree %v is a page, not a /Pages node", ref)
			}
			if inh.hasRes {
				if rd, ok := d.Resolve(inh.res).(Dict); ok {
					pg.Resources = rd
				} else {
					bad("page-resources", "page %v: /Resources is not a dictionary", ref)
				}
			} else {
				bad("page-resources", "page %v has no /Resources (required, inheritable)", ref)
			}
			if inh.hasBox {
				arr, ok := d.Resolve(inh.box).(Array)
				if ok && len(arr) == 4 {
					pg.HasBox = true
					for i, e := range arr {
						f, isNum := Num(d.Resolve(e))
						if !isNum {
							pg.HasBox = false
						}
						pg.MediaBox[i] = f
					}
				}
				if !pg.HasBox {
					bad("page-mediabox", "page %v: /MediaBox is not an array of four numbers", ref)
				}
			} else {
				bad("page-mediabox", "page %v has no /MediaBox (required, inheritable)", ref)
			}
			// contents: a stream or an array of streams, always indirect
			var refs []Object
			switch c := node["Contents"].(type) {
			case nil:
			case Ref:
				if arr, ok := d.Resolve(c).(Array); ok {
					refs = arr
				} else {
					refs = []Object{c}
				}
			case Array:
				refs = c
			default:
				bad("page-contents", "page %v: /Contents is neither a reference nor an array", ref)
			}
			for i, r := range refs {
				if _, ok := r.(Ref); !ok {
					bad("page-contents", "page %v: content stream %d is not an indirect reference", ref, i)
					continue
				}
				st, ok := d.Resolve(r).(*Stream)
				if !ok {
					bad("page-contents", "page %v: content %v is not a stream", ref, r)
					continue
				}
				pg.Streams = append(pg.Streams, st)
				dec, err := st.Decode()
				if err != nil {
					bad("page-contents", "page %v: content %v: %v", ref, r, err)
					continue
				}
				if i > 0 {
					pg.Content = append(pg.Content, '\n')
				}
				pg.Content = append(pg.Content, dec...)
			}
			if a, ok := node["Annots"]; ok {
				arr, ok := d.Resolve(a).(Array)
				if !ok {
					bad("page-annots", "page %v: /Annots is not an array", ref)
				}
				for _, e := range arr {
					ad, ok := d.Resolve(e).(Dict)
					if !ok {
						bad("page-annots", "page %v: annotation is not a dictionary", ref)
						continue
					}
					pg.Annots = append(pg.Annots, ad)
				}
			}
			pages = append(pages, pg)
			return 1
		default:
			bad("page-tree", "node %v has /Type %v (expected /Pages or /Page)", ref, node["Type"])
			return 0
		}
	}
	walk(rootRef, nil, inherit{})
	return pages, probs
}

// ResourceCategory returns the sub-dictionary of the page resources (e.g. "Font"), resolved.
func (d *Doc) ResourceCategory(res Dict, cat Name) Dict {
	sub, _ := d.Resolve(res[cat]).(Dict)
	return sub
}
