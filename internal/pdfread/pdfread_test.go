package pdfread

import (
	"bytes"
	"compress/zlib"
	"fmt"
	"strings"
	"testing"
)

func lexString(t *testing.T, src string) []byte {
	t.Helper()
	l := &lexer{b: []byte(src)}
	tok, err := l.next()
	if err != nil || tok.kind != tString {
		t.Fatalf("%q: %v kind=%v", src, err, tok.kind)
	}
	return tok.s
}

func TestLiteralStrings(t *testing.T) {
	cases := []struct{ src, want string }{
		{`(abc)`, "abc"},
		{`(a(b)c)`, "a(b)c"},
		{`(a\(b\)\\c)`, `a(b)\c`},
		{`(\n\r\t\b\f)`, "\n\r\t\b\f"},
		{"(a\rb)", "a\nb"},     // EOL rule: bare CR reads as LF
		{"(a\r\nb)", "a\nb"},   // CRLF reads as one LF
		{"(a\nb)", "a\nb"},     // LF stays
		{"(a\n\rb)", "a\n\nb"}, // LF CR are two end-of-line markers
		{"(a\\\rb)", "ab"},     // line continuation
		{"(a\\\r\nb)", "ab"},
		{"(a\\\nb)", "ab"},
		{`(\101\1012\0053\53)`, "AA2\x053+"},
		{`(\777)`, "\xff"}, // high-order overflow ignored
		{`(\q)`, "q"},      // unknown escape: backslash dropped
		{`()`, ""},
		{"(\xfe\xff\x00T\x01\\r)", "\xfe\xff\x00T\x01\r"},
		{"(\xfe\xff\x00T\x01\r)", "\xfe\xff\x00T\x01\n"},
	}
	for _, c := range cases {
		if got := lexString(t, c.src); string(got) != c.want {
			t.Errorf("%q: got %q want %q", c.src, got, c.want)
		}
	}
	for _, src := range []string{"(abc", "(a(b)", `(a\`} {
		l := &lexer{b: []byte(src)}
		if _, err := l.next(); err == nil {
			t.Errorf("%q: expected error", src)
		}
	}
}

func TestHexStringsNamesNumbers(t *testing.T) {
	if got := lexString(t, "<48 65 6C6c6F7>"); string(got) != "Hellop" {
		t.Errorf("hex: %q", got)
	}
	l := &lexer{b: []byte("/A#20B#2Fc /")}
	tok, _ := l.next()
	if tok.kind != tName || string(tok.s) != "A B/c" {
		t.Errorf("name: %q", tok.s)
	}
	tok, _ = l.next()
	if tok.kind != tName || len(tok.s) != 0 {
		t.Errorf("empty name: %v %q", tok.kind, tok.s)
	}
	for src, want := range map[string]tokKind{"12": tInt, "-7": tInt, "+3": tInt, "1.5": tReal, "-.5": tReal, "4.": tReal,
		"1e5": tKeyword, "NaN": tKeyword, "+Inf": tKeyword, "--1": tKeyword, ".": tKeyword, "-": tKeyword, "1.2.3": tKeyword, "S*": tKeyword} {
		l := &lexer{b: []byte(src)}
		tok, err := l.next()
		if err != nil || tok.kind != want {
			t.Errorf("%q: kind %v want %v (%v)", src, tok.kind, want, err)
		}
	}
}

func TestASCII85(t *testing.T) {
	// "Man " -> 9jqo^
	got, err := ASCII85Decode([]byte("9jqo^~>"))
	if err != nil || string(got) != "Man " {
		t.Errorf("%q %v", got, err)
	}
	got, err = ASCII85Decode([]byte("9jq\no^ z 9jn~>"))
	if err != nil || string(got) != "Man \x00\x00\x00\x00Ma" {
		t.Errorf("%q %v", got, err)
	}
	for _, bad := range []string{"9jqo^", "9jqo^~", "9jvo^~>x", "9~>", "9jqoz~>"} {
		if _, err := ASCII85Decode([]byte(bad)); err == nil {
			t.Errorf("%q: expected error", bad)
		}
	}
}

func TestTextString(t *testing.T) {
	s, err := DecodeTextString([]byte("\xfe\xff\x00T\x01\x0d"))
	if err != nil || s != "Tč" {
		t.Errorf("%q %v", s, err)
	}
	s, err = DecodeTextString([]byte("\xfe\xff\xd8\x3d\xde\x00"))
	if err != nil || s != "😀" {
		t.Errorf("%q %v", s, err)
	}
	s, err = DecodeTextString([]byte("a\x80\xe9\xa0"))
	if err != nil || s != "a•é€" {
		t.Errorf("%q %v", s, err)
	}
	if _, err = DecodeTextString([]byte("\xfe\xff\x00")); err == nil {
		t.Error("odd length accepted")
	}
	if _, err = DecodeTextString([]byte("a\x7f")); err == nil {
		t.Error("undefined code accepted")
	}
}

// build assembles a file from object bodies and computes a correct table.
func build(objs []string, mutate func(offsets []int, xref *string)) []byte {
	var b bytes.Buffer
	b.WriteString("%PDF-1.7\n%\xe2\xe3\xcf\xd3\n")
	offs := make([]int, len(objs))
	for i, o := range objs {
		offs[i] = b.Len()
		fmt.Fprintf(&b, "%d 0 obj\n%s\nendobj\n", i+1, o)
	}
	if mutate != nil {
		mutate(offs, nil)
	}
	x := b.Len()
	fmt.Fprintf(&b, "xref\n0 %d\n0000000000 65535 f \n", len(objs)+1)
	for _, o := range offs {
		fmt.Fprintf(&b, "%010d 00000 n \n", o)
	}
	fmt.Fprintf(&b, "trailer\n<</Size %d/Root 1 0 R>>\nstartxref\n%d\n%%%%EOF\n", len(objs)+1, x)
	return b.Bytes()
}

func stream(dict, data string) string {
	return fmt.Sprintf("<<%s/Length %d>>stream\n%s\nendstream", dict, len(data), data)
}

func classes(ps []Problem) string {
	var s []string
	for _, p := range ps {
		s = append(s, p.Class)
	}
	return strings.Join(s, ",")
}

func TestMinimalDocument(t *testing.T) {
	var z bytes.Buffer
	zw := zlib.NewWriter(&z)
	zw.Write([]byte("q 1 0 0 1 0 0 cm BT /F0 12 Tf (hi) Tj ET Q"))
	zw.Close()
	objs := []string{
		"<</Type/Catalog/Pages 2 0 R>>",
		"<</Type/Pages/Kids[3 0 R]/Count 1/MediaBox[0 0 100 50]>>",
		"<</Type/Page/Parent 2 0 R/Resources<</Font<</F0 5 0 R>>>>/Contents 4 0 R>>",
		stream("/Filter/FlateDecode", z.String()),
		"<</Type/Font/Subtype/Type1/BaseFont/Helvetica>>",
	}
	d, err := Parse(build(objs, nil))
	if err != nil || len(d.Problems) != 0 {
		t.Fatalf("%v %v", err, d.Problems)
	}
	if len(d.Body) != 5 || len(d.Objects) != 5 {
		t.Fatalf("objects %d %d", len(d.Body), len(d.Objects))
	}
	if p := d.CheckRefs(); len(p) != 0 {
		t.Fatal(p)
	}
	pages, probs := d.Pages()
	if len(probs) != 0 || len(pages) != 1 || pages[0].MediaBox != [4]float64{0, 0, 100, 50} {
		t.Fatalf("%v %v", probs, pages)
	}
	ops, err := ParseContent(pages[0].Content)
	if err != nil || len(ops) != 7 || ops[4].Operator != "Tj" {
		t.Fatalf("%v %v", err, ops)
	}
	if p := ValidateContent(ops); len(p) != 0 {
		t.Fatal(p)
	}
	u := UsedResources(ops)
	if len(u) != 1 || u[0].Category != "Font" || u[0].Name != "F0" {
		t.Fatal(u)
	}

	// wrong offset of object 3 (points after the header of the object)
	d, _ = Parse(build(objs, func(o []int, _ *string) { o[2] += 8 }))
	if c := classes(d.Problems); !strings.Contains(c, "xref-offset") {
		t.Errorf("offset mutation not seen: %s", c)
	}
	// wrong Length
	objs2 := append([]string{}, objs...)
	objs2[3] = strings.Replace(objs2[3], "/Length ", "/Length 1", 1)
	d, _ = Parse(build(objs2, nil))
	if c := classes(d.Problems); !strings.Contains(c, "stream-length") {
		t.Errorf("length mutation not seen: %s", c)
	}
	// dangling reference and wrong count
	objs3 := append([]string{}, objs...)
	objs3[1] = "<</Type/Pages/Kids[3 0 R]/Count 2/MediaBox[0 0 100 50]/X 9 0 R>>"
	d, _ = Parse(build(objs3, nil))
	if p := d.CheckRefs(); len(p) != 1 {
		t.Errorf("dangling: %v", p)
	}
	if _, probs := d.Pages(); classes(probs) != "page-count" {
		t.Errorf("count: %v", probs)
	}
}

func TestValidateContent(t *testing.T) {
	for src, want := range map[string]string{
		"0 0 m 1 1 l S*":              "content-operator-invalid",
		"BT BT ET":                    "content-text-balance",
		"BT (a) Tj":                   "content-text-balance",
		"(a) Tj":                      "content-text-balance",
		"q":                           "content-qQ-balance",
		"Q":                           "content-qQ-balance",
		"0 0 m 1 w 1 1 l S":           "content-state",
		"0 0 m 1 1 l":                 "content-state",
		"0 0 m W 1 w n":               "content-state",
		"BT q ET":                     "content-state,content-qQ-balance",
		"1 2 rg":                      "content-operands",
		"NaN w":                       "content-operator-invalid,content-operands",
		"0 0 m 1 1 l h W n q 1 g Q f": "content-state",
		"/P0 scn 1 0 0 RG [1 2] 0 d":  "",
		"q 0 0 1 1 re W n /Im0 Do Q":  "",
		"BT /F0 1 Tf 1 0 0 rg [(a) -5 (b)] TJ ET": "",
	} {
		ops, err := ParseContent([]byte(src))
		if err != nil {
			t.Errorf("%q: %v", src, err)
			continue
		}
		if got := classes(ValidateContent(ops)); got != want {
			t.Errorf("%q: got %q want %q", src, got, want)
		}
	}
}
