package pdfread

import (
	"bytes"
	"fmt"
	"unicode/utf16"
)

// Type0Font is a composite font dictionary (ISO 32000-1 9.7) with its single descendant CIDFont
// as a reader needs it for glyph selection (9.7.4.2), glyph metrics (9.7.4.3) and text
// extraction (9.10.3).
type Type0Font struct {
	Dict     Dict
	BaseFont Name
	Encoding Name // name of a predefined CMap; only Identity-H and Identity-V are interpreted
	WMode    int  // 0 horizontal, 1 vertical (from the Encoding CMap)

	CIDFont     Dict
	CIDSubtype  Name // CIDFontType0 or CIDFontType2
	DW          float64
	W           map[int]float64 // expanded /W
	DW2         [2]float64      // vy of the position vector, w1y
	W2          map[int][3]float64
	HasCIDToGID bool     // the key is present in the CIDFont dictionary
	CIDToGID    []uint16 // decoded stream; nil for /Identity or absent
	CIDToGIDObj Object   // resolved value of the key

	Descriptor  Dict
	FontFileKey Name // FontFile, FontFile2 or FontFile3 ("" if the program is not embedded)
	FontFile    *Stream
	ToUnicode   *Stream
}

// ReadType0Font interprets a font dictionary with /Subtype /Type0.
func (d *Doc) ReadType0Font(fd Dict) (*Type0Font, []Problem) {
	var probs []Problem
	bad := func(format string, a ...interface{}) {
		probs = append(probs, Problem{"font-dict", fmt.Sprintf(format, a...)})
	}
	f := &Type0Font{Dict: fd, DW: 1000, DW2: [2]float64{880, -1000}, W: map[int]float64{}, W2: map[int][3]float64{}}
	if fd["Subtype"] != Name("Type0") {
		bad("Subtype is %s, not /Type0", Fmt(fd["Subtype"]))
		return f, probs
	}
	f.BaseFont, _ = d.Resolve(fd["BaseFont"]).(Name)
	switch enc := d.Resolve(fd["Encoding"]).(type) {
	case Name:
		f.Encoding = enc
		switch enc {
		case "Identity-H":
		case "Identity-V":
			f.WMode = 1
		default:
			bad("Encoding /%s is not interpreted by this reader", enc)
		}
	default:
		bad("Encoding is %s; embedded CMaps are not interpreted by this reader", Fmt(enc))
	}
	desc, _ := d.Resolve(fd["DescendantFonts"]).(Array)
	if len(desc) != 1 {
		bad("DescendantFonts must be a one-element array, is %s", Fmt(d.Resolve(fd["DescendantFonts"])))
		return f, probs
	}
	cid, ok := d.Dict(desc[0])
	if !ok {
		bad("the descendant font is not a dictionary")
		return f, probs
	}
	f.CIDFont = cid
	f.CIDSubtype, _ = d.Resolve(cid["Subtype"]).(Name)
	if f.CIDSubtype != "CIDFontType0" && f.CIDSubtype != "CIDFontType2" {
		bad("descendant Subtype is %s", Fmt(cid["Subtype"]))
	}
	if v, ok := cid["DW"]; ok {
		if n, ok := Num(d.Resolve(v)); ok {
			f.DW = n
		} else {
			bad("DW is %s", Fmt(v))
		}
	}
	if v, ok := cid["W"]; ok {
		arr, isArr := d.Resolve(v).(Array)
		if !isArr {
			bad("W is %s", Fmt(v))
		}
		// 9.7.4.3: c [w1 w2 ... wn]  |  cfirst clast w
		for i := 0; i < len(arr); {
			c, ok := d.Resolve(arr[i]).(int64)
			if !ok || i+1 >= len(arr) {
				bad("W: element %d (%s) is not the start of a group", i, Fmt(arr[i]))
				break
			}
			switch nx := d.Resolve(arr[i+1]).(type) {
			case Array:
				for k, wv := range nx {
					n, ok := Num(d.Resolve(wv))
					if !ok {
						bad("W: width %s is not a number", Fmt(wv))
					}
					f.W[int(c)+k] = n
				}
				i += 2
			case int64:
				if i+2 >= len(arr) {
					bad("W: range group at element %d is incomplete", i)
					i = len(arr)
					break
				}
				n, ok := Num(d.Resolve(arr[i+2]))
				if !ok || nx < c {
					bad("W: range group %s %s %s", Fmt(arr[i]), Fmt(arr[i+1]), Fmt(arr[i+2]))
				}
				for k := c; k <= nx && k-c < 65536; k++ {
					f.W[int(k)] = n
				}
				i += 3
			default:
				bad("W: element %d (%s) is neither an array nor a last CID", i+1, Fmt(arr[i+1]))
				i = len(arr)
			}
		}
	}
	if v, ok := cid["DW2"]; ok {
		arr, _ := d.Resolve(v).(Array)
		if len(arr) == 2 {
			a, ok1 := Num(d.Resolve(arr[0]))
			b, ok2 := Num(d.Resolve(arr[1]))
			if ok1 && ok2 {
				f.DW2 = [2]float64{a, b}
			}
		} else {
			bad("DW2 is %s", Fmt(v))
		}
	}
	if v, ok := cid["W2"]; ok {
		arr, _ := d.Resolve(v).(Array)
		// c [w1y v1x v1y ...]  |  cfirst clast w1y vx vy
		for i := 0; i < len(arr); {
			c, ok := d.Resolve(arr[i]).(int64)
			if !ok || i+1 >= len(arr) {
				bad("W2: element %d is not the start of a group", i)
				break
			}
			if sub, isArr := d.Resolve(arr[i+1]).(Array); isArr {
				for k := 0; k+2 < len(sub); k += 3 {
					a, _ := Num(d.Resolve(sub[k]))
					b, _ := Num(d.Resolve(sub[k+1]))
					cc, _ := Num(d.Resolve(sub[k+2]))
					f.W2[int(c)+k/3] = [3]float64{a, b, cc}
				}
				i += 2
				continue
			}
			last, ok := d.Resolve(arr[i+1]).(int64)
			if !ok || i+4 >= len(arr) {
				bad("W2: range group at element %d is malformed", i)
				break
			}
			a, _ := Num(d.Resolve(arr[i+2]))
			b, _ := Num(d.Resolve(arr[i+3]))
			cc, _ := Num(d.Resolve(arr[i+4]))
			for k := c; k <= last && k-c < 65536; k++ {
				f.W2[int(k)] = [3]float64{a, b, cc}
			}
			i += 5
		}
	}
	if v, ok := cid["CIDToGIDMap"]; ok {
		f.HasCIDToGID = true
		f.CIDToGIDObj = d.Resolve(v)
		switch m := f.CIDToGIDObj.(type) {
		case Name:
			if m != "Identity" {
				bad("CIDToGIDMap /%s", m)
			}
		case *Stream:
			b, err := m.Decode()
			if err != nil {
				bad("CIDToGIDMap stream: %v", err)
			}
			if len(b)%2 != 0 {
				bad("CIDToGIDMap stream has an odd length %d", len(b))
			}
			f.CIDToGID = make([]uint16, len(b)/2)
			for i := range f.CIDToGID {
				f.CIDToGID[i] = uint16(b[2*i])<<8 | uint16(b[2*i+1])
			}
		default:
			bad("CIDToGIDMap is %s", Fmt(v))
		}
	}
	f.Descriptor, _ = d.Dict(cid["FontDescriptor"])
	for _, key := range []Name{"FontFile", "FontFile2", "FontFile3"} {
		if v, ok := f.Descriptor[key]; ok {
			st, isStream := d.Resolve(v).(*Stream)
			if !isStream {
				bad("%s is not a stream", key)
				continue
			}
			if f.FontFile != nil {
				bad("more than one font program (%s and %s)", f.FontFileKey, key)
				continue
			}
			f.FontFileKey, f.FontFile = key, st
		}
	}
	if v, ok := fd["ToUnicode"]; ok {
		st, isStream := d.Resolve(v).(*Stream)
		if !isStream {
			bad("ToUnicode is not a stream")
		}
		f.ToUnicode = st
	}
	return f, probs
}

// Width returns the horizontal displacement w0 of a CID in thousandths of text space.
func (f *Type0Font) Width(cid int) float64 {
	if w, ok := f.W[cid]; ok {
		return w
	}
	return f.DW
}

// Vertical returns w1y and the position vector (vx, vy) of a CID (9.7.4.3).
func (f *Type0Font) Vertical(cid int) (w1y, vx, vy float64) {
	if m, ok := f.W2[cid]; ok {
		return m[0], m[1], m[2]
	}
	return f.DW2[1], f.Width(cid) / 2, f.DW2[0]
}

// GID applies the glyph selection rules of 9.7.4.2 as far as the font dictionary decides them.
// For a CIDFontType2 the CID goes through CIDToGIDMap (default Identity). For a CIDFontType0 the
// dictionary decides nothing: the embedded program does (charset of a CID-keyed CFF, or CID =
// glyph index if the Top DICT has no CIDFont operators); viaProgram is then true and gid = cid.
// A CIDToGIDMap entry in a CIDFontType0 is not part of Table 117 and is not consulted.
func (f *Type0Font) GID(cid int) (gid int, viaProgram bool, ok bool) {
	switch f.CIDSubtype {
	case "CIDFontType2":
		if f.CIDToGID == nil {
			return cid, false, true
		}
		if cid < len(f.CIDToGID) {
			return int(f.CIDToGID[cid]), false, true
		}
		return 0, false, false
	case "CIDFontType0":
		return cid, true, true
	}
	return 0, false, false
}

// ToUnicodeMap is a parsed ToUnicode CMap (9.10.3; Adobe TN #5411).
type ToUnicodeMap struct {
	CodeSpace [][2][]byte
	Map       map[int]string // character code -> Unicode text
	CodeLen   map[int]int    // character code -> number of bytes of the source code
	Problems  []Problem
}

func utf16beString(b []byte) (string, bool) {
	if len(b)%2 != 0 {
		return "", false
	}
	u := make([]uint16, len(b)/2)
	for i := range u {
		u[i] = uint16(b[2*i])<<8 | uint16(b[2*i+1])
	}
	return string(utf16.Decode(u)), true
}

func codeOf(b []byte) int {
	v := 0
	for _, c := range b {
		v = v<<8 | int(c)
	}
	return v
}

// ParseToUnicode reads the bfchar and bfrange sections of a decoded ToUnicode CMap stream.
func ParseToUnicode(b []byte) *ToUnicodeMap {
	m := &ToUnicodeMap{Map: map[int]string{}, CodeLen: map[int]int{}}
	bad := func(format string, a ...interface{}) {
		m.Problems = append(m.Problems, Problem{"tounicode-syntax", fmt.Sprintf(format, a...)})
	}
	ops, err := ParseContent(b)
	if err != nil {
		bad("%v", err)
	}
	announced := -1
	set := func(src []byte, text string) {
		c := codeOf(src)
		if _, dup := m.Map[c]; dup {
			bad("code <%X> is mapped twice", src)
		}
		m.Map[c] = text
		m.CodeLen[c] = len(src)
	}
	for _, op := range ops {
		switch op.Operator {
		case "begincodespacerange", "beginbfchar", "beginbfrange":
			announced = -1
			if len(op.Operands) > 0 {
				if n, ok := op.Operands[len(op.Operands)-1].(int64); ok {
					announced = int(n)
				}
			}
			if announced > 100 {
				// Adobe TN #5014 (to which ISO 32000-1 9.10.3 refers): at most 100 entries per block
				bad("%s announces %d entries, a block holds at most 100", op.Operator, announced)
			}
		case "endcodespacerange":
			if len(op.Operands)%2 != 0 || len(op.Operands)/2 != announced {
				bad("codespacerange announces %d entries and has %d strings", announced, len(op.Operands))
			}
			for i := 0; i+1 < len(op.Operands); i += 2 {
				lo, ok1 := op.Operands[i].(String)
				hi, ok2 := op.Operands[i+1].(String)
				if !ok1 || !ok2 || len(lo.B) != len(hi.B) {
					bad("codespacerange entry %d is malformed", i/2)
					continue
				}
				m.CodeSpace = append(m.CodeSpace, [2][]byte{lo.B, hi.B})
			}
		case "endbfchar":
			if len(op.Operands)%2 != 0 || len(op.Operands)/2 != announced {
				bad("bfchar announces %d entries and has %d strings", announced, len(op.Operands))
			}
			for i := 0; i+1 < len(op.Operands); i += 2 {
				src, ok1 := op.Operands[i].(String)
				dst, ok2 := op.Operands[i+1].(String)
				if !ok1 || !ok2 {
					bad("bfchar entry %d is not a pair of strings", i/2)
					continue
				}
				text, ok := utf16beString(dst.B)
				if !ok {
					bad("bfchar <%X>: destination <%X> is not UTF-16BE", src.B, dst.B)
					continue
				}
				set(src.B, text)
			}
		case "endbfrange":
			if len(op.Operands)%3 != 0 || len(op.Operands)/3 != announced {
				bad("bfrange announces %d entries and has %d operands", announced, len(op.Operands))
			}
			for i := 0; i+2 < len(op.Operands); i += 3 {
				lo, ok1 := op.Operands[i].(String)
				hi, ok2 := op.Operands[i+1].(String)
				if !ok1 || !ok2 || len(lo.B) != len(hi.B) || codeOf(hi.B) < codeOf(lo.B) {
					bad("bfrange entry %d: malformed source range", i/3)
					continue
				}
				n := codeOf(hi.B) - codeOf(lo.B) + 1
				if len(lo.B) > 1 && !bytes.Equal(lo.B[:len(lo.B)-1], hi.B[:len(hi.B)-1]) {
					// TN #5014: the codes of a range differ in their last byte only (multi-byte ranges
					// are rectangular); consumers read <00FE> <0101> in different ways
					bad("bfrange <%X> <%X>: the source codes differ in more than their last byte", lo.B, hi.B)
				}
				src := func(k int) []byte {
					c := codeOf(lo.B) + k
					out := make([]byte, len(lo.B))
					for j := len(out) - 1; j >= 0; j-- {
						out[j] = byte(c)
						c >>= 8
					}
					return out
				}
				switch dst := op.Operands[i+2].(type) {
				case String:
					if len(dst.B) < 2 || len(dst.B)%2 != 0 {
						bad("bfrange <%X>: destination <%X> is not UTF-16BE", lo.B, dst.B)
						continue
					}
					if int(dst.B[len(dst.B)-1])+n-1 > 255 {
						// TN #5411: only the last byte is incremented; a range that carries out
						// of it is read differently by different consumers
						bad("bfrange <%X> <%X> <%X>: incrementing the destination carries out of its last byte", lo.B, hi.B, dst.B)
					}
					for k := 0; k < n; k++ {
						db := append([]byte{}, dst.B...)
						v := int(db[len(db)-2])<<8 | int(db[len(db)-1])
						v += k
						db[len(db)-2], db[len(db)-1] = byte(v>>8), byte(v)
						text, _ := utf16beString(db)
						set(src(k), text)
					}
				case Array:
					if len(dst) != n {
						bad("bfrange <%X> <%X>: array of %d destinations for %d codes", lo.B, hi.B, len(dst), n)
					}
					for k := 0; k < n && k < len(dst); k++ {
						s, ok := dst[k].(String)
						if !ok {
							bad("bfrange <%X>: destination %d is not a string", lo.B, k)
							continue
						}
						text, ok := utf16beString(s.B)
						if !ok {
							bad("bfrange <%X>: destination <%X> is not UTF-16BE", lo.B, s.B)
							continue
						}
						set(src(k), text)
					}
				default:
					bad("bfrange entry %d: destination is %s", i/3, Fmt(dst))
				}
			}
		}
	}
	return m
}
