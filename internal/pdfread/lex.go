// Package pdfread is a minimal, strict PDF reader written from ISO 32000-1 (PDF 1.7). It imports
// nothing from the library under test. It is meant as an oracle: it parses what the spec defines,
// reports everything else as a Problem with a class naming the clause, and keeps going where it
// can so that one defect does not hide the others.
//
// Supported: classic cross-reference tables (with /Prev chains), all object kinds, literal and hex
// strings with every escape rule of 7.3.4.2, FlateDecode (no predictors) / ASCII85Decode /
// ASCIIHexDecode / DCTDecode (validated with image/jpeg), page-tree walk with inherited
// attributes, content-stream tokenizer, operator table (Table 51) and the graphics-object state
// machine of Figure 9, text-string decoding (PDFDocEncoding, UTF-16BE, UTF-8 BOM).
// Not supported (reported as errors, never guessed): cross-reference streams, object streams,
// encryption, LZW/CCITT/JBIG2/JPX filters, Flate/LZW predictors.
package pdfread

import (
	"fmt"
	"strconv"
)

// Object is one of: nil (null), bool, int64, float64, String, Name, Array, Dict, *Stream, Ref.
type Object interface{}

// Name is a name object with #xx escapes already decoded (without the leading slash).
type Name string

// Ref is an indirect reference "Num Gen R".
type Ref struct{ Num, Gen int }

func (r Ref) String() string { return fmt.Sprintf("%d %d R", r.Num, r.Gen) }

// String is a string object after un-escaping (literal) or hex decoding.
type String struct {
	B   []byte
	Hex bool
}

// Array is an array object.
type Array []Object

// Dict is a dictionary object (duplicate keys are reported as Problems by Parse).
type Dict map[Name]Object

// Stream is a stream object. Raw holds the Length bytes following the stream keyword (or, if
// Length is wrong, the bytes up to the endstream keyword; LengthOK is then false).
type Stream struct {
	Dict     Dict
	Raw      []byte
	Offset   int // offset of the first data byte in the file
	LengthOK bool
}

// Problem is one violation of the file format; Class names the clause.
type Problem struct {
	Class  string
	Detail string
}

func (p Problem) String() string { return p.Class + ": " + p.Detail }

type tokKind int

const (
	tEOF tokKind = iota
	tInt
	tReal
	tString
	tName
	tArrOpen
	tArrClose
	tDictOpen
	tDictClose
	tKeyword
)

type token struct {
	kind tokKind
	pos  int
	s    []byte // name, string bytes, keyword
	i    int64
	f    float64
	hex  bool
}

type lexer struct {
	b   []byte
	pos int
}

// IsWhite reports the white-space characters of Table 1.
func IsWhite(c byte) bool {
	return c == 0 || c == 9 || c == 10 || c == 12 || c == 13 || c == 32
}

// IsDelim reports the delimiter characters of Table 2.
func IsDelim(c byte) bool {
	switch c {
	case '(', ')', '<', '>', '[', ']', '{', '}', '/', '%':
		return true
	}
	return false
}

func isRegular(c byte) bool { return !IsWhite(c) && !IsDelim(c) }

// skipWS skips white space and comments.
func (l *lexer) skipWS() {
	for l.pos < len(l.b) {
		c := l.b[l.pos]
		if IsWhite(c) {
			l.pos++
		} else if c == '%' {
			for l.pos < len(l.b) && l.b[l.pos] != '\n' && l.b[l.pos] != '\r' {
				l.pos++
			}
		} else {
			return
		}
	}
}

func hexVal(c byte) int {
	switch {
	case '0' <= c && c <= '9':
		return int(c - '0')
	case 'a' <= c && c <= 'f':
		return int(c-'a') + 10
	case 'A' <= c && c <= 'F':
		return int(c-'A') + 10
	}
	return -1
}

// parseNumber applies the number syntax of 7.3.3: [+-]? digits [. digits] with at least one digit;
// no exponents, no second sign, no NaN/Inf.
func parseNumber(s []byte) (isInt bool, i int64, f float64, ok bool) {
	j := 0
	if j < len(s) && (s[j] == '+' || s[j] == '-') {
		j++
	}
	digits, dots := 0, 0
	for ; j < len(s); j++ {
		switch {
		case '0' <= s[j] && s[j] <= '9':
			digits++
		case s[j] == '.':
			dots++
		default:
			return false, 0, 0, false
		}
	}
	if digits == 0 || dots > 1 {
		return false, 0, 0, false
	}
	if dots == 0 {
		v, err := strconv.ParseInt(string(s), 10, 64)
		if err != nil {
			// out of int64 range: treat as real
			fv, err2 := strconv.ParseFloat(string(s), 64)
			if err2 != nil {
				return false, 0, 0, false
			}
			return false, 0, fv, true
		}
		return true, v, float64(v), true
	}
	fv, err := strconv.ParseFloat(string(s), 64)
	if err != nil {
		return false, 0, 0, false
	}
	return false, 0, fv, true
}

func (l *lexer) next() (token, error) {
	l.skipWS()
	if l.pos >= len(l.b) {
		return token{kind: tEOF, pos: l.pos}, nil
	}
	start := l.pos
	c := l.b[l.pos]
	switch c {
	case '[':
		l.pos++
		return token{kind: tArrOpen, pos: start}, nil
	case ']':
		l.pos++
		return token{kind: tArrClose, pos: start}, nil
	case '{', '}':
		l.pos++
		return token{kind: tKeyword, pos: start, s: []byte{c}}, nil
	case ')':
		return token{}, fmt.Errorf("offset %d: unbalanced ')'", start)
	case '(':
		return l.literalString()
	case '<':
		if l.pos+1 < len(l.b) && l.b[l.pos+1] == '<' {
			l.pos += 2
			return token{kind: tDictOpen, pos: start}, nil
		}
		return l.hexString()
	case '>':
		if l.pos+1 < len(l.b) && l.b[l.pos+1] == '>' {
			l.pos += 2
			return token{kind: tDictClose, pos: start}, nil
		}
		return token{}, fmt.Errorf("offset %d: stray '>'", start)
	case '/':
		l.pos++
		var name []byte
		for l.pos < len(l.b) && isRegular(l.b[l.pos]) {
			ch := l.b[l.pos]
			if ch == '#' {
				if l.pos+2 >= len(l.b) {
					return token{}, fmt.Errorf("offset %d: truncated #xx in name", l.pos)
				}
				h, lo := hexVal(l.b[l.pos+1]), hexVal(l.b[l.pos+2])
				if h < 0 || lo < 0 {
					return token{}, fmt.Errorf("offset %d: bad #xx escape in name", l.pos)
				}
				if h == 0 && lo == 0 {
					return token{}, fmt.Errorf("offset %d: #00 in name", l.pos)
				}
				name = append(name, byte(h<<4|lo))
				l.pos += 3
				continue
			}
			// 7.3.5: characters outside 0x21..0x7E should be written with #xx; they are
			// "regular" for the tokenizer, so the byte is accepted as is
			name = append(name, ch)
			l.pos++
		}
		return token{kind: tName, pos: start, s: name}, nil
	}
	// regular characters: number or keyword
	for l.pos < len(l.b) && isRegular(l.b[l.pos]) {
		l.pos++
	}
	s := l.b[start:l.pos]
	if isInt, i, f, ok := parseNumber(s); ok {
		if isInt {
			return token{kind: tInt, pos: start, i: i, f: f, s: s}, nil
		}
		return token{kind: tReal, pos: start, f: f, s: s}, nil
	}
	return token{kind: tKeyword, pos: start, s: s}, nil
}

// literalString implements 7.3.4.2 completely: balanced unescaped parentheses, the escapes of
// Table 3, \ddd octal (high-order overflow ignored), backslash-EOL line continuation, a backslash
// before any other character is dropped, and an unescaped end-of-line marker (CR, LF or CRLF) is
// read as a single LF.
func (l *lexer) literalString() (token, error) {
	start := l.pos
	l.pos++ // (
	depth := 1
	var out []byte
	for l.pos < len(l.b) {
		c := l.b[l.pos]
		switch c {
		case '(':
			depth++
			out = append(out, c)
			l.pos++
		case ')':
			depth--
			l.pos++
			if depth == 0 {
				if out == nil {
					out = []byte{}
				}
				return token{kind: tString, pos: start, s: out}, nil
			}
			out = append(out, c)
		case '\r':
			out = append(out, '\n')
			l.pos++
			if l.pos < len(l.b) && l.b[l.pos] == '\n' {
				l.pos++
			}
		case '\\':
			l.pos++
			if l.pos >= len(l.b) {
				return token{}, fmt.Errorf("offset %d: unterminated string", start)
			}
			e := l.b[l.pos]
			switch e {
			case 'n':
				out = append(out, '\n')
				l.pos++
			case 'r':
				out = append(out, '\r')
				l.pos++
			case 't':
				out = append(out, '\t')
				l.pos++
			case 'b':
				out = append(out, '\b')
				l.pos++
			case 'f':
				out = append(out, '\f')
				l.pos++
			case '(', ')', '\\':
				out = append(out, e)
				l.pos++
			case '\r':
				l.pos++
				if l.pos < len(l.b) && l.b[l.pos] == '\n' {
					l.pos++
				}
			case '\n':
				l.pos++
			default:
				if '0' <= e && e <= '7' {
					v := 0
					for n := 0; n < 3 && l.pos < len(l.b) && '0' <= l.b[l.pos] && l.b[l.pos] <= '7'; n++ {
						v = v*8 + int(l.b[l.pos]-'0')
						l.pos++
					}
					out = append(out, byte(v))
				} else {
					// backslash ignored, character kept
					out = append(out, e)
					l.pos++
				}
			}
		default:
			out = append(out, c)
			l.pos++
		}
	}
	return token{}, fmt.Errorf("offset %d: unterminated string", start)
}

func (l *lexer) hexString() (token, error) {
	start := l.pos
	l.pos++ // <
	var out []byte
	half := -1
	for l.pos < len(l.b) {
		c := l.b[l.pos]
		l.pos++
		if c == '>' {
			if half >= 0 {
				out = append(out, byte(half<<4))
			}
			if out == nil {
				out = []byte{}
			}
			return token{kind: tString, pos: start, s: out, hex: true}, nil
		}
		if IsWhite(c) {
			continue
		}
		v := hexVal(c)
		if v < 0 {
			return token{}, fmt.Errorf("offset %d: non-hex character %q in hex string", l.pos-1, c)
		}
		if half < 0 {
			half = v
		} else {
			out = append(out, byte(half<<4|v))
			half = -1
		}
	}
	return token{}, fmt.Errorf("offset %d: unterminated hex string", start)
}
