package pdfread

import "fmt"

// Mat is a PDF transformation matrix [a b c d e f]: (x,y) -> (a x + c y + e, b x + d y + f).
type Mat [6]float64

// MatIdentity is the identity matrix.
var MatIdentity = Mat{1, 0, 0, 1, 0, 0}

// Mul returns m x n (m is applied first, then n), as in 8.3.4.
func (m Mat) Mul(n Mat) Mat {
	return Mat{
		m[0]*n[0] + m[1]*n[2], m[0]*n[1] + m[1]*n[3],
		m[2]*n[0] + m[3]*n[2], m[2]*n[1] + m[3]*n[3],
		m[4]*n[0] + m[5]*n[2] + n[4], m[4]*n[1] + m[5]*n[3] + n[5],
	}
}

// Apply maps a point.
func (m Mat) Apply(x, y float64) (float64, float64) {
	return m[0]*x + m[2]*y + m[4], m[1]*x + m[3]*y + m[5]
}

// TextFont is what the text-showing operators need to know about the current font.
type TextFont interface {
	CodeBytes() int // bytes per character code
	WritingMode() int
	// Displacement returns w0 (horizontal mode) or w1y (vertical mode) of a character code in
	// thousandths of a text space unit.
	Displacement(code int) float64
}

// Shown is one character code painted by a text-showing operator (9.4.3, 9.4.4).
type Shown struct {
	TextObject int  // index of the BT ... ET pair within the content
	OpIndex    int  // index into the operators
	FontName   Name // resource name given to Tf
	Size       float64
	Code       int
	CodeLen    int
	// Tm is the text matrix when the glyph is painted, CTM the current transformation matrix.
	// The glyph origin in user space is Tm x CTM applied to (0, Rise).
	Tm, CTM    Mat
	Tc, Tw, Th float64 // character spacing, word spacing, horizontal scaling (1 = 100 %)
	Rise       float64
	Mode       int // writing mode of the font
	// W is the displacement from the font (w0 or w1y, thousandths); Tx, Ty what the text matrix
	// was translated by after this glyph, in unscaled text space units (9.4.4), including Tc/Tw.
	W      float64
	Tx, Ty float64
	// AdjBefore / AdjAfter: the numbers of a TJ array between the previous glyph of the same
	// array (or the start of the array) and this one / between this one and the next glyph (or
	// the end of the array), in thousandths (sum if several).
	AdjBefore, AdjAfter float64
	RenderMode          int
}

type textState struct {
	tc, tw, th, tl, rise float64
	font                 Name
	size                 float64
	mode                 int
}

type gstate struct {
	ctm Mat
	ts  textState
}

// InterpretText runs the text-related and matrix-related operators of a content stream and
// returns every painted character code in painting order. fonts resolves a font resource name;
// if it returns nil the strings shown with that font are skipped and a problem is recorded.
func InterpretText(ops []Op, fonts func(Name) TextFont) ([]Shown, []Problem) {
	var out []Shown
	var probs []Problem
	bad := func(class, format string, a ...interface{}) {
		probs = append(probs, Problem{class, fmt.Sprintf(format, a...)})
	}
	gs := gstate{ctm: MatIdentity, ts: textState{th: 1}}
	var stack []gstate
	tm, tlm := MatIdentity, MatIdentity
	inText := false
	textObject := -1
	num := func(op Op, i int) float64 {
		if i < len(op.Operands) {
			if v, ok := Num(op.Operands[i]); ok {
				return v
			}
		}
		bad("text-operand", "operator %s at offset %d: operand %d is not a number", op.Operator, op.Offset, i)
		return 0
	}
	translate := func(tx, ty float64) {
		tlm = Mat{1, 0, 0, 1, tx, ty}.Mul(tlm)
		tm = tlm
	}
	// show paints one string; returns indices of the glyphs appended
	show := func(opIndex int, op Op, s []byte) (first, last int) {
		first, last = len(out), len(out)
		if !inText {
			bad("text-outside-object", "operator %s at offset %d outside BT ... ET", op.Operator, op.Offset)
			return
		}
		if gs.ts.font == "" {
			bad("text-no-font", "operator %s at offset %d before any Tf", op.Operator, op.Offset)
			return
		}
		f := fonts(gs.ts.font)
		if f == nil {
			bad("text-font-unknown", "operator %s at offset %d: font /%s cannot be interpreted", op.Operator, op.Offset, gs.ts.font)
			return
		}
		n := f.CodeBytes()
		if n < 1 || len(s)%n != 0 {
			bad("text-code-length", "operator %s at offset %d: string of %d bytes is not a sequence of %d-byte codes", op.Operator, op.Offset, len(s), n)
			return
		}
		for i := 0; i+n <= len(s); i += n {
			code := 0
			for _, c := range s[i : i+n] {
				code = code<<8 | int(c)
			}
			sh := Shown{
				TextObject: textObject, OpIndex: opIndex, FontName: gs.ts.font, Size: gs.ts.size,
				Code: code, CodeLen: n, Tm: tm, CTM: gs.ctm, Tc: gs.ts.tc, Tw: gs.ts.tw, Th: gs.ts.th,
				Rise: gs.ts.rise, Mode: f.WritingMode(), W: f.Displacement(code), RenderMode: gs.ts.mode,
			}
			tw := 0.0
			if n == 1 && code == 32 { // 9.3.3: word spacing applies to the single-byte code 32 only
				tw = gs.ts.tw
			}
			if sh.Mode == 0 {
				sh.Tx = (sh.W/1000*gs.ts.size + gs.ts.tc + tw) * gs.ts.th
			} else {
				sh.Ty = sh.W/1000*gs.ts.size + gs.ts.tc + tw
			}
			tm = Mat{1, 0, 0, 1, sh.Tx, sh.Ty}.Mul(tm)
			out = append(out, sh)
		}
		last = len(out)
		return
	}
	for k, op := range ops {
		switch op.Operator {
		case "q":
			stack = append(stack, gs)
		case "Q":
			if len(stack) > 0 {
				gs = stack[len(stack)-1]
				stack = stack[:len(stack)-1]
			}
		case "cm":
			m := Mat{num(op, 0), num(op, 1), num(op, 2), num(op, 3), num(op, 4), num(op, 5)}
			gs.ctm = m.Mul(gs.ctm)
		case "BT":
			inText = true
			textObject++
			tm, tlm = MatIdentity, MatIdentity
		case "ET":
			inText = false
		case "Tc":
			gs.ts.tc = num(op, 0)
		case "Tw":
			gs.ts.tw = num(op, 0)
		case "Tz":
			gs.ts.th = num(op, 0) / 100
		case "TL":
			gs.ts.tl = num(op, 0)
		case "Ts":
			gs.ts.rise = num(op, 0)
		case "Tr":
			gs.ts.mode = int(num(op, 0))
		case "Tf":
			if len(op.Operands) == 2 {
				if n, ok := op.Operands[0].(Name); ok {
					gs.ts.font = n
				}
			}
			gs.ts.size = num(op, 1)
		case "Td":
			translate(num(op, 0), num(op, 1))
		case "TD":
			gs.ts.tl = -num(op, 1)
			translate(num(op, 0), num(op, 1))
		case "Tm":
			tm = Mat{num(op, 0), num(op, 1), num(op, 2), num(op, 3), num(op, 4), num(op, 5)}
			tlm = tm
		case "T*":
			translate(0, -gs.ts.tl)
		case "Tj", "'", "\"":
			si := 0
			if op.Operator == "\"" {
				gs.ts.tw, gs.ts.tc = num(op, 0), num(op, 1)
				si = 2
			}
			if op.Operator != "Tj" {
				translate(0, -gs.ts.tl)
			}
			if si < len(op.Operands) {
				if s, ok := op.Operands[si].(String); ok {
					show(k, op, s.B)
					continue
				}
			}
			bad("text-operand", "operator %s at offset %d: no string operand", op.Operator, op.Offset)
		case "TJ":
			arr, _ := Array(nil), false
			if len(op.Operands) == 1 {
				arr, _ = op.Operands[0].(Array)
			}
			prev := -1 // index in out of the last glyph painted by this array
			pending := 0.0
			for _, e := range arr {
				switch v := e.(type) {
				case String:
					a, b := show(k, op, v.B)
					if b > a {
						out[a].AdjBefore += pending
						pending = 0
						prev = b - 1
					}
				default:
					n, ok := Num(e)
					if !ok {
						bad("text-operand", "TJ at offset %d: array element %s", op.Offset, Fmt(e))
						continue
					}
					// 9.4.3: the number is subtracted from the current coordinate, in
					// thousandths of a text space unit
					mode := 0
					if f := fonts(gs.ts.font); f != nil {
						mode = f.WritingMode()
					}
					var tx, ty float64
					if mode == 0 {
						tx = -n / 1000 * gs.ts.size * gs.ts.th
					} else {
						ty = -n / 1000 * gs.ts.size
					}
					tm = Mat{1, 0, 0, 1, tx, ty}.Mul(tm)
					if prev >= 0 {
						out[prev].AdjAfter += n
						out[prev].Tx += tx
						out[prev].Ty += ty
					}
					pending += n
				}
			}
		}
	}
	return out, probs
}
