package pdfread

import (
	"math"
	"testing"
)

type fakeFont struct {
	n, mode int
	w       map[int]float64
}

func (f fakeFont) CodeBytes() int                   { return f.n }
func (f fakeFont) WritingMode() int                 { return f.mode }
func (f fakeFont) Displacement(c int) float64       { return f.w[c] }
func near(a, b float64) bool                        { return math.Abs(a-b) < 1e-9 }
func fonts(m map[Name]TextFont) func(Name) TextFont { return func(n Name) TextFont { return m[n] } }

// The text-showing arithmetic of ISO 32000-1 9.4.2-9.4.4 on hand-computed examples.
func TestInterpretText(t *testing.T) {
	h := fakeFont{n: 2, w: map[int]float64{1: 500, 2: 250}}
	v := fakeFont{n: 2, mode: 1, w: map[int]float64{1: -1000}}
	one := fakeFont{n: 1, w: map[int]float64{32: 300, 65: 600}}
	fs := fonts(map[Name]TextFont{"H": h, "V": v, "S": one})

	ops, err := ParseContent([]byte(`2 0 0 2 0 0 cm BT /H 10 Tf 3 4 Td [<0001> -100 <00020001>] TJ ET`))
	if err != nil {
		t.Fatal(err)
	}
	sh, probs := InterpretText(ops, fs)
	if len(probs) != 0 || len(sh) != 3 {
		t.Fatalf("%v %d", probs, len(sh))
	}
	// glyph 0 at (3,4); advances 500/1000*10 = 5, then TJ -100 moves +1: glyph 1 at 9; it advances 2.5
	x, y := sh[0].Tm.Mul(sh[0].CTM).Apply(0, 0)
	if !near(x, 6) || !near(y, 8) || !near(sh[0].Tx, 6) || sh[0].AdjAfter != -100 {
		t.Fatalf("glyph 0: origin (%v,%v) Tx %v adj %v", x, y, sh[0].Tx, sh[0].AdjAfter)
	}
	if !near(sh[1].Tm[4], 9) || !near(sh[1].Tx, 2.5) || !near(sh[2].Tm[4], 11.5) || sh[1].AdjBefore != -100 {
		t.Fatalf("glyph 1/2: %v %v %v", sh[1].Tm, sh[1].Tx, sh[2].Tm)
	}

	// vertical writing: w1 = -1000 moves down by the font size; a TJ number is subtracted from y
	ops, _ = ParseContent([]byte(`BT /V 10 Tf 1 0 0 1 50 60 Tm [<0001> 163 <0001>] TJ ET`))
	sh, probs = InterpretText(ops, fs)
	if len(probs) != 0 || len(sh) != 2 || !near(sh[0].Ty, -10-1.63) || !near(sh[1].Tm[5], 60-11.63) || !near(sh[1].Tm[4], 50) {
		t.Fatalf("vertical: %v %+v", probs, sh)
	}

	// Tc, Tw (single-byte code 32 only), Tz, TL, T*, ', ", TD, Ts and q/Q
	ops, _ = ParseContent([]byte(`BT /S 10 Tf 1 Tc 2 Tw 50 Tz 12 TL 0 100 Td (A ) Tj T* (A) ' 3 4 (A) " 5 -20 TD (A) Tj q 7 Ts Q (A) Tj ET`))
	sh, probs = InterpretText(ops, fs)
	if len(probs) != 0 || len(sh) != 6 {
		t.Fatalf("%v %d", probs, len(sh))
	}
	// "A": (6 + 1) * 0.5 = 3.5; " ": (3 + 1 + 2) * 0.5 = 3
	if !near(sh[0].Tx, 3.5) || !near(sh[1].Tx, 3) || !near(sh[1].Tm[4], 3.5) {
		t.Fatalf("Tc/Tw/Tz: %v %v %v", sh[0].Tx, sh[1].Tx, sh[1].Tm)
	}
	// T* goes to the start of the next line: (0, 100-12); ' once more: (0, 76); " sets Tw 3 Tc 4 and moves again: (0, 64)
	if !near(sh[2].Tm[4], 0) || !near(sh[2].Tm[5], 76) || !near(sh[3].Tm[5], 64) || !near(sh[3].Tx, (6+4)*0.5) {
		t.Fatalf("T* ' \": %v %v", sh[2].Tm, sh[3].Tm)
	}
	// TD 5 -20 sets TL = 20 and moves relative to the line start: (5, 44)
	if !near(sh[4].Tm[4], 5) || !near(sh[4].Tm[5], 44) || sh[4].Rise != 0 || sh[5].Rise != 0 {
		t.Fatalf("TD/Ts/q/Q: %v rise %v %v", sh[4].Tm, sh[4].Rise, sh[5].Rise)
	}
}

func TestParseToUnicode(t *testing.T) {
	m := ParseToUnicode([]byte(`/CIDInit /ProcSet findresource begin 12 dict begin begincmap
/CIDSystemInfo <</Registry(Adobe)/Ordering(UCS)/Supplement 0>> def /CMapName /Adobe-Identity-UCS def /CMapType 2 def
1 begincodespacerange <0000> <FFFF> endcodespacerange
2 beginbfrange <0001> <0003> <0061> <0010> <0011> [<00660069> <D835DC00>] endbfrange
2 beginbfchar <0000> <FFFD> <0004> <00E9> endbfchar
endcmap CMapName currentdict /CMap defineresource pop end end`))
	if len(m.Problems) != 0 {
		t.Fatal(m.Problems)
	}
	want := map[int]string{0: "�", 1: "a", 2: "b", 3: "c", 4: "é", 0x10: "fi", 0x11: "\U0001D400"}
	for c, s := range want {
		if m.Map[c] != s {
			t.Fatalf("code %d: %q, want %q", c, m.Map[c], s)
		}
	}
	if len(m.Map) != len(want) || len(m.CodeSpace) != 1 {
		t.Fatalf("%v", m.Map)
	}
	bad := ParseToUnicode([]byte(`3 beginbfchar <0001> <0041> endbfchar 1 beginbfrange <00FE> <0101> <00FF> endbfrange`))
	if len(bad.Problems) != 3 {
		t.Fatalf("%v", bad.Problems)
	}
}
