package pdfread

import (
	"bytes"
	"fmt"
)

// Op is one operator of a content stream with the operands that precede it.
type Op struct {
	Operator string
	Operands []Object
	Offset   int // offset of the operator in the decoded content
	// Inline image (operator "BI"): dictionary and data.
	ImageDict Dict
	ImageData []byte
}

// ParseContent tokenizes a decoded content stream (7.8.2) into operators with operands.
// Operands left over at the end, or a syntax error, are returned as an error together with the
// operators parsed so far. Whether an operator exists is not decided here (see Operators).
func ParseContent(b []byte) ([]Op, error) {
	p := &objParser{lexer: lexer{b: b}, content: true}
	var ops []Op
	var operands []Object
	for {
		t, err := p.next()
		if err != nil {
			return ops, err
		}
		if t.kind == tEOF {
			if len(operands) > 0 {
				return ops, fmt.Errorf("offset %d: %d operands without an operator at the end of the stream", t.pos, len(operands))
			}
			return ops, nil
		}
		if t.kind == tKeyword {
			kw := string(t.s)
			switch kw {
			case "true", "false", "null":
				o, _ := p.parseFrom(t)
				operands = append(operands, o)
				continue
			case "BI":
				op := Op{Operator: "BI", Offset: t.pos, ImageDict: Dict{}}
				for {
					k, err := p.next()
					if err != nil {
						return ops, err
					}
					if k.kind == tKeyword && string(k.s) == "ID" {
						break
					}
					if k.kind != tName {
						return ops, fmt.Errorf("offset %d: inline image key is not a name", k.pos)
					}
					v, err := p.parseObject()
					if err != nil {
						return ops, err
					}
					op.ImageDict[Name(k.s)] = v
				}
				// one white-space byte, then data up to white space + EI + white space/EOF
				start := p.pos + 1
				if start > len(b) {
					return ops, fmt.Errorf("inline image: no data")
				}
				end := -1
				for i := start; i+2 <= len(b); i++ {
					if b[i] == 'E' && b[i+1] == 'I' && i > start-1 && (i == start || IsWhite(b[i-1])) && (i+2 == len(b) || IsWhite(b[i+2])) {
						end = i
						break
					}
				}
				if end < 0 {
					return ops, fmt.Errorf("offset %d: inline image without EI", t.pos)
				}
				de := end
				if de > start && IsWhite(b[de-1]) {
					de--
				}
				op.ImageData = b[start:de]
				p.pos = end + 2
				ops = append(ops, op)
				continue
			}
			ops = append(ops, Op{Operator: kw, Operands: operands, Offset: t.pos})
			operands = nil
			continue
		}
		o, err := p.parseFrom(t)
		if err != nil {
			return ops, err
		}
		operands = append(operands, o)
	}
}

// OpInfo describes an operator of Table 51.
type OpInfo struct {
	Category string // gstate, path, paint, clip, textobj, textstate, textpos, textshow, type3, color, shading, xobject, marked, compat
	Args     string // one letter per operand: n number, i integer, N name, s string, a array, d dict-or-name, * variable
}

// Operators is Table 51 of ISO 32000-1 (inline images are handled by ParseContent).
var Operators = map[string]OpInfo{
	"q": {"gstate", ""}, "Q": {"gstate", ""}, "cm": {"gstate", "nnnnnn"}, "w": {"gstate", "n"}, "J": {"gstate", "i"},
	"j": {"gstate", "i"}, "M": {"gstate", "n"}, "d": {"gstate", "an"}, "ri": {"gstate", "N"}, "i": {"gstate", "n"}, "gs": {"gstate", "N"},
	"m": {"path", "nn"}, "l": {"path", "nn"}, "c": {"path", "nnnnnn"}, "v": {"path", "nnnn"}, "y": {"path", "nnnn"}, "h": {"path", ""}, "re": {"path", "nnnn"},
	"S": {"paint", ""}, "s": {"paint", ""}, "f": {"paint", ""}, "F": {"paint", ""}, "f*": {"paint", ""}, "B": {"paint", ""}, "B*": {"paint", ""},
	"b": {"paint", ""}, "b*": {"paint", ""}, "n": {"paint", ""},
	"W": {"clip", ""}, "W*": {"clip", ""},
	"BT": {"textobj", ""}, "ET": {"textobj", ""},
	"Tc": {"textstate", "n"}, "Tw": {"textstate", "n"}, "Tz": {"textstate", "n"}, "TL": {"textstate", "n"}, "Tf": {"textstate", "Nn"},
	"Tr": {"textstate", "i"}, "Ts": {"textstate", "n"},
	"Td": {"textpos", "nn"}, "TD": {"textpos", "nn"}, "Tm": {"textpos", "nnnnnn"}, "T*": {"textpos", ""},
	"Tj": {"textshow", "s"}, "TJ": {"textshow", "a"}, "'": {"textshow", "s"}, "\"": {"textshow", "nns"},
	"d0": {"type3", "nn"}, "d1": {"type3", "nnnnnn"},
	"CS": {"color", "N"}, "cs": {"color", "N"}, "SC": {"color", "*"}, "SCN": {"color", "*"}, "sc": {"color", "*"}, "scn": {"color", "*"},
	"G": {"color", "n"}, "g": {"color", "n"}, "RG": {"color", "nnn"}, "rg": {"color", "nnn"}, "K": {"color", "nnnn"}, "k": {"color", "nnnn"},
	"sh": {"shading", "N"},
	"Do": {"xobject", "N"},
	"MP": {"marked", "N"}, "DP": {"marked", "Nd"}, "BMC": {"marked", "N"}, "BDC": {"marked", "Nd"}, "EMC": {"marked", ""},
	"BX": {"compat", ""}, "EX": {"compat", ""},
	"BI": {"inline", ""},
}

func operandOK(kind byte, o Object) bool {
	switch kind {
	case 'n':
		_, ok := Num(o)
		return ok
	case 'i':
		_, ok := o.(int64)
		return ok
	case 'N':
		_, ok := o.(Name)
		return ok
	case 's':
		_, ok := o.(String)
		return ok
	case 'a':
		_, ok := o.(Array)
		return ok
	case 'd':
		switch o.(type) {
		case Name, Dict:
			return true
		}
	}
	return false
}

// ValidateContent checks a content stream against Table 51 (operator exists, number and type of
// operands) and against the graphics-object state machine of Figure 9 / 8.2: page level, path
// object, clipping-path object, text object; q/Q balanced and never below zero and not inside a
// text object; BT/ET alternate; marked content BMC/BDC..EMC balanced; BX/EX balanced.
// Classes: content-operator-invalid, content-operands, content-text-balance,
// content-qQ-balance, content-state, content-marked-balance.
func ValidateContent(ops []Op) []Problem {
	var out []Problem
	bad := func(class, f string, a ...interface{}) {
		if len(out) < 50 {
			out = append(out, Problem{class, fmt.Sprintf(f, a...)})
		}
	}
	const (
		stPage = iota
		stPath
		stClip
		stText
	)
	state := stPage
	depth := 0
	marked := 0
	compat := 0
	for k, op := range ops {
		info, known := Operators[op.Operator]
		where := fmt.Sprintf("operator #%d %q at offset %d", k, op.Operator, op.Offset)
		if !known {
			if compat == 0 {
				bad("content-operator-invalid", "%s is not an operator of PDF 1.7 (Table 51); operands %v", where, fmtOperands(op.Operands))
			}
			// what an unknown operator does to the current path is undefined: do not let one
			// defect cascade into content-state problems
			if state == stPath || state == stClip {
				state = stPage
			}
			continue
		}
		// operands
		switch info.Args {
		case "*":
			n := len(op.Operands)
			okArgs := n >= 1
			for i, o := range op.Operands {
				if _, isNum := Num(o); isNum {
					continue
				}
				if _, isName := o.(Name); isName && i == n-1 && (op.Operator == "SCN" || op.Operator == "scn") {
					continue
				}
				okArgs = false
			}
			if n > 33 {
				okArgs = false
			}
			if !okArgs {
				bad("content-operands", "%s: operands %v", where, fmtOperands(op.Operands))
			}
		default:
			if op.Operator != "BI" {
				if len(op.Operands) != len(info.Args) {
					bad("content-operands", "%s: %d operands, expected %d: %v", where, len(op.Operands), len(info.Args), fmtOperands(op.Operands))
				} else {
					for i := range info.Args {
						if !operandOK(info.Args[i], op.Operands[i]) {
							bad("content-operands", "%s: operand %d has the wrong type: %v", where, i, fmtOperands(op.Operands))
						}
					}
				}
			}
			if op.Operator == "TJ" && len(op.Operands) == 1 {
				if arr, ok := op.Operands[0].(Array); ok {
					for _, e := range arr {
						_, isNum := Num(e)
						_, isStr := e.(String)
						if !isNum && !isStr {
							bad("content-operands", "%s: TJ array element is neither string nor number", where)
						}
					}
				}
			}
			if op.Operator == "d" && len(op.Operands) == 2 {
				if arr, ok := op.Operands[0].(Array); ok {
					for _, e := range arr {
						if f, isNum := Num(e); !isNum || f < 0 {
							bad("content-operands", "%s: dash array element is not a non-negative number", where)
						}
					}
				}
			}
		}
		// state machine (Figure 9)
		cat := info.Category
		switch state {
		case stPage:
			switch cat {
			case "path":
				if op.Operator == "m" || op.Operator == "re" {
					state = stPath
				} else {
					bad("content-state", "%s: path segment without a current point (no m or re before it)", where)
					state = stPath
				}
			case "paint", "clip":
				bad("content-state", "%s outside a path object", where)
			case "textpos", "textshow":
				bad("content-text-balance", "%s outside a text object (no BT)", where)
			case "textobj":
				if op.Operator == "BT" {
					state = stText
				} else {
					bad("content-text-balance", "%s without a matching BT", where)
				}
			}
		case stPath:
			switch cat {
			case "path":
			case "clip":
				state = stClip
			case "paint":
				state = stPage
			default:
				bad("content-state", "%s inside a path object (between path construction and painting)", where)
				if op.Operator == "BT" {
					state = stText
				}
			}
		case stClip:
			if cat == "paint" {
				state = stPage
			} else {
				bad("content-state", "%s after a clipping operator (a painting operator must follow W/W*)", where)
				if cat == "path" {
					state = stPath
				}
			}
		case stText:
			switch cat {
			case "textobj":
				if op.Operator == "ET" {
					state = stPage
				} else {
					bad("content-text-balance", "%s inside a text object (BT nested)", where)
				}
			case "textstate", "textpos", "textshow", "color", "marked", "compat":
			case "gstate":
				if op.Operator == "q" || op.Operator == "Q" || op.Operator == "cm" {
					bad("content-state", "%s inside a text object", where)
				}
			default:
				bad("content-state", "%s inside a text object", where)
			}
		}
		switch op.Operator {
		case "q":
			depth++
			if depth > 28 {
				bad("content-qQ-balance", "%s: graphics state nested deeper than 28 (Annex C)", where)
			}
		case "Q":
			depth--
			if depth < 0 {
				bad("content-qQ-balance", "%s without a matching q", where)
				depth = 0
			}
		case "BMC", "BDC":
			marked++
		case "EMC":
			marked--
			if marked < 0 {
				bad("content-marked-balance", "%s without BMC/BDC", where)
				marked = 0
			}
		case "BX":
			compat++
		case "EX":
			compat--
			if compat < 0 {
				bad("content-marked-balance", "%s without BX", where)
				compat = 0
			}
		}
	}
	switch state {
	case stText:
		bad("content-text-balance", "content ends inside a text object (BT without ET)")
	case stPath, stClip:
		bad("content-state", "content ends inside a path object (path never painted or ended with n)")
	}
	if depth != 0 {
		bad("content-qQ-balance", "content ends with %d unmatched q", depth)
	}
	if marked != 0 {
		bad("content-marked-balance", "content ends with %d unmatched BMC/BDC", marked)
	}
	return out
}

func fmtOperands(os []Object) string {
	var b bytes.Buffer
	b.WriteByte('[')
	for i, o := range os {
		if i > 0 {
			b.WriteByte(' ')
		}
		if i >= 8 {
			b.WriteString("…")
			break
		}
		b.WriteString(Fmt(o))
	}
	b.WriteByte(']')
	return b.String()
}

// Fmt renders an object for messages.
func Fmt(o Object) string {
	switch v := o.(type) {
	case nil:
		return "null"
	case Name:
		return "/" + string(v)
	case String:
		return fmt.Sprintf("(%q)", string(v.B))
	case Array:
		return fmtOperands([]Object(v))
	case Dict:
		return fmt.Sprintf("<<%d keys>>", len(v))
	case *Stream:
		return "stream"
	case Ref:
		return v.String()
	}
	return fmt.Sprint(o)
}

// ResourceUse is a resource name used by a content stream.
type ResourceUse struct {
	Category Name // Font, XObject, ExtGState, Pattern, ColorSpace, Shading, Properties
	Name     Name
	Operator string
	Offset   int
}

// UsedResources lists the named resources the operators refer to (Tf, Do, gs, scn/SCN with a
// name operand, cs/CS with a non-device colour space, sh, BDC/DP with a name operand).
func UsedResources(ops []Op) []ResourceUse {
	var out []ResourceUse
	add := func(cat Name, o Object, op Op) {
		if n, ok := o.(Name); ok {
			out = append(out, ResourceUse{cat, n, op.Operator, op.Offset})
		}
	}
	for _, op := range ops {
		n := len(op.Operands)
		switch op.Operator {
		case "Tf":
			if n >= 2 {
				add("Font", op.Operands[n-2], op)
			}
		case "Do":
			if n >= 1 {
				add("XObject", op.Operands[n-1], op)
			}
		case "gs":
			if n >= 1 {
				add("ExtGState", op.Operands[n-1], op)
			}
		case "scn", "SCN":
			if n >= 1 {
				add("Pattern", op.Operands[n-1], op)
			}
		case "sh":
			if n >= 1 {
				add("Shading", op.Operands[n-1], op)
			}
		case "cs", "CS":
			if n >= 1 {
				if nm, ok := op.Operands[n-1].(Name); ok {
					switch nm {
					case "DeviceGray", "DeviceRGB", "DeviceCMYK", "Pattern":
					default:
						add("ColorSpace", nm, op)
					}
				}
			}
		case "BDC", "DP":
			if n >= 2 {
				add("Properties", op.Operands[n-1], op)
			}
		}
	}
	return out
}
