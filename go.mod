module verif

go 1.24.1

require (
	github.com/tdewolff/canvas v0.0.0
	github.com/tdewolff/font v0.0.0-20250314092958-e0eef3f68b08
	golang.org/x/image v0.26.0
)

require (
	codeberg.org/go-latex/latex v0.1.0 // indirect
	github.com/BurntSushi/freetype-go v0.0.0-20160129220410-b763ddbfe298 // indirect
	github.com/BurntSushi/graphics-go v0.0.0-20160129215708-b43f31a4a966 // indirect
	github.com/BurntSushi/xgb v0.0.0-20210121224620-deaf085860bc // indirect
	github.com/BurntSushi/xgbutil v0.0.0-20190907113008-ad855c713046 // indirect
	github.com/ByteArena/poly2tri-go v0.0.0-20170716161910-d102ad91854f // indirect
	github.com/andybalholm/brotli v1.1.1 // indirect
	github.com/benoitkugler/textlayout v0.3.1 // indirect
	github.com/benoitkugler/textprocessing v0.0.3 // indirect
	github.com/go-fonts/latin-modern v0.3.3 // indirect
	github.com/go-text/typesetting v0.3.0 // indirect
	github.com/golang/freetype v0.0.0-20170609003504-e2365dfdc4a0 // indirect
	github.com/srwiley/rasterx v0.0.0-20220730225603-2ab79fcdd4ef // indirect
	github.com/srwiley/scanx v0.0.0-20190309010443-e94503791388 // indirect
	github.com/tdewolff/minify/v2 v2.23.0 // indirect
	github.com/tdewolff/parse/v2 v2.7.22 // indirect
	github.com/wcharczuk/go-chart/v2 v2.1.2 // indirect
	golang.org/x/net v0.38.0 // indirect
	golang.org/x/text v0.24.0 // indirect
	gonum.org/v1/plot v0.16.0 // indirect
	modernc.org/knuth v0.5.4 // indirect
	modernc.org/token v1.1.0 // indirect
	star-tex.org/x/tex v0.6.0 // indirect
)

replace github.com/tdewolff/canvas => /repo
