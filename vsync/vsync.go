// Package vsync is a drop-in replacement for the parts of "sync" that canvas uses (Pool, Mutex,
// OnceFunc). Under a controlled execution (internal/sched) every operation is a scheduling
// point and Pool.Get is additionally a data choice (which pooled object is returned); outside
// one it behaves like a plain LIFO pool / real mutex. It lives outside internal/ because the
// overlay-rewritten canvas sources import it.
package vsync

import (
	"reflect"
	"sync"
	"unsafe"

	"verif/internal/sched"
)

// PoolAnswers selects the menu for Pool.Get under exploration: "lifo-fifo-new" (default):
// newest (what sync.Pool does on one P), oldest, or a fresh New(); "all": any pooled object or New().
var PoolAnswers = "lifo-fifo-new"

// Poison makes Put overwrite the object with its zero value before pooling it. A real sync.Pool may
// hand a pooled object to another goroutine at once, which then overwrites every field, so any
// read of an object after it was Put is a data race; zeroing makes such a read observable
// deterministically, even in a single-threaded run (any change of behaviour under Poison proves a
// use after Put).
var Poison = false

// PoisonDonor selects what Put writes into the object under Poison: false = the zero value;
// true = the content of the object that was Put just before it on the same pool (valid-looking
// content of another segment, as a concurrent reuse would leave behind; the zero value for the
// first Put). Zero happens to look like "already consumed" to the sweep code, donor content does not.
var PoisonDonor = false

// PoisonScramble (under Poison, takes precedence over PoisonDonor): every integer field of the
// released object is set to 3*v+7, every bool is flipped, every float gets 1e6 added; pointers
// are kept. Unlike zeroing this never looks like a consumed or fresh object.
var PoisonScramble = false

func scramble(v reflect.Value) {
	base := v.Addr().UnsafePointer()
	var walk func(t reflect.Type, off uintptr)
	walk = func(t reflect.Type, off uintptr) {
		switch t.Kind() {
		case reflect.Struct:
			for i := 0; i < t.NumField(); i++ {
				walk(t.Field(i).Type, off+t.Field(i).Offset)
			}
		case reflect.Int:
			q := (*int)(unsafe.Add(base, off))
			*q = 3**q + 7
		case reflect.Int32:
			q := (*int32)(unsafe.Add(base, off))
			*q = 3**q + 7
		case reflect.Int64:
			q := (*int64)(unsafe.Add(base, off))
			*q = 3**q + 7
		case reflect.Uint8:
			q := (*uint8)(unsafe.Add(base, off))
			*q = *q + 1
		case reflect.Bool:
			q := (*bool)(unsafe.Add(base, off))
			*q = !*q
		case reflect.Float64:
			q := (*float64)(unsafe.Add(base, off))
			*q = *q + 1e6
		}
	}
	walk(v.Type(), 0)
}

// Pool models sync.Pool.
type Pool struct {
	New        func() any
	mu         sync.Mutex
	items      []any
	Gets, Puts int
	donor      reflect.Value
}

var pools []*Pool
var poolsMu sync.Mutex

func register(p *Pool) {
	poolsMu.Lock()
	for _, q := range pools {
		if q == p {
			poolsMu.Unlock()
			return
		}
	}
	pools = append(pools, p)
	poolsMu.Unlock()
}

// Pools returns all pools that were used so far (for state dumps by the harness).
func Pools() []*Pool { return pools }

// Items exposes the pooled objects (harness state dumps).
func (p *Pool) Items() []any { return p.items }

// Drain empties the pool (harness: fresh process state).
func (p *Pool) Drain() { p.items = nil; p.donor = reflect.Value{} }

func (p *Pool) Get() any {
	register(p)
	sched.Point("Pool.Get")
	p.mu.Lock()
	defer p.mu.Unlock()
	p.Gets++
	n := len(p.items)
	if n == 0 {
		if p.New != nil {
			return p.New()
		}
		return nil
	}
	idx := n - 1
	if sched.Active() {
		if PoolAnswers == "all" {
			// options: 0 = newest, 1..n-1 = older ones, n = New()
			k := sched.Choose(n+1, "Pool.Get answer")
			if k == n {
				if p.New != nil {
					return p.New()
				}
				return nil
			}
			idx = n - 1 - k
		} else {
			k := sched.Choose(3, "Pool.Get answer")
			switch k {
			case 1:
				idx = 0
			case 2:
				if p.New != nil {
					return p.New()
				}
				return nil
			}
		}
	}
	x := p.items[idx]
	p.items = append(p.items[:idx], p.items[idx+1:]...)
	return x
}

func (p *Pool) Put(x any) {
	register(p)
	sched.Point("Pool.Put")
	if Poison {
		if v := reflect.ValueOf(x); v.Kind() == reflect.Ptr && !v.IsNil() {
			cur := reflect.New(v.Elem().Type()).Elem()
			cur.Set(v.Elem())
			if PoisonScramble {
				scramble(v.Elem())
			} else if PoisonDonor && p.donor.IsValid() && p.donor.Type() == v.Elem().Type() {
				v.Elem().Set(p.donor)
			} else {
				v.Elem().Set(reflect.Zero(v.Elem().Type()))
			}
			p.donor = cur
		}
	}
	p.mu.Lock()
	p.Puts++
	p.items = append(p.items, x)
	p.mu.Unlock()
}

// Mutex models sync.Mutex; Lock on a held mutex under exploration spins through scheduling
// points (each retry yields), which keeps waiting visible to the scheduler.
type Mutex struct {
	mu   sync.Mutex
	held bool
}

func (m *Mutex) Lock() {
	if !sched.Active() {
		m.mu.Lock()
		return
	}
	for {
		sched.Point("Mutex.Lock")
		if !m.held {
			m.held = true
			return
		}
	}
}

func (m *Mutex) Unlock() {
	if !sched.Active() {
		m.mu.Unlock()
		return
	}
	sched.Point("Mutex.Unlock")
	m.held = false
}

// OnceFunc models sync.OnceFunc.
func OnceFunc(f func()) func() {
	var once sync.Once
	return func() {
		sched.Point("OnceFunc")
		once.Do(f)
	}
}

// Touch marks an access to unsynchronised shared state (inserted by the overlay generator in
// front of statements that read or write the named package-level variable).
func Touch(name string) { sched.Point("touch " + name) }

// Map models sync.Map: every operation is a scheduling point in front of the real operation
// (the map itself is safe for concurrent use; what the explorer varies is the order of the
// operations of different goroutines).
type Map struct{ m sync.Map }

func (m *Map) Load(key any) (any, bool) { sched.Point("Map.Load"); return m.m.Load(key) }
func (m *Map) Store(key, value any)     { sched.Point("Map.Store"); m.m.Store(key, value) }
func (m *Map) LoadOrStore(key, value any) (any, bool) {
	sched.Point("Map.LoadOrStore")
	return m.m.LoadOrStore(key, value)
}
func (m *Map) LoadAndDelete(key any) (any, bool) {
	sched.Point("Map.LoadAndDelete")
	return m.m.LoadAndDelete(key)
}
func (m *Map) Delete(key any) { sched.Point("Map.Delete"); m.m.Delete(key) }
func (m *Map) Swap(key, value any) (any, bool) {
	sched.Point("Map.Swap")
	return m.m.Swap(key, value)
}
func (m *Map) CompareAndSwap(key, old, new any) bool {
	sched.Point("Map.CompareAndSwap")
	return m.m.CompareAndSwap(key, old, new)
}
func (m *Map) CompareAndDelete(key, old any) bool {
	sched.Point("Map.CompareAndDelete")
	return m.m.CompareAndDelete(key, old)
}
func (m *Map) Range(f func(key, value any) bool) { sched.Point("Map.Range"); m.m.Range(f) }
func (m *Map) Clear()                            { sched.Point("Map.Clear"); m.m.Clear() }

// RWMutex models sync.RWMutex like Mutex (a writer excludes everybody, readers share).
type RWMutex struct {
	mu      sync.RWMutex
	writer  bool
	readers int
}

func (m *RWMutex) Lock() {
	if !sched.Active() {
		m.mu.Lock()
		return
	}
	for {
		sched.Point("RWMutex.Lock")
		if !m.writer && m.readers == 0 {
			m.writer = true
			return
		}
	}
}

func (m *RWMutex) Unlock() {
	if !sched.Active() {
		m.mu.Unlock()
		return
	}
	sched.Point("RWMutex.Unlock")
	m.writer = false
}

func (m *RWMutex) RLock() {
	if !sched.Active() {
		m.mu.RLock()
		return
	}
	for {
		sched.Point("RWMutex.RLock")
		if !m.writer {
			m.readers++
			return
		}
	}
}

func (m *RWMutex) RUnlock() {
	if !sched.Active() {
		m.mu.RUnlock()
		return
	}
	sched.Point("RWMutex.RUnlock")
	m.readers--
}

// Once models sync.Once: Do is a scheduling point; a second goroutine that arrives while the
// first still runs f waits through scheduling points.
type Once struct {
	mu      sync.Mutex
	done    bool
	running bool
	once    sync.Once
}

func (o *Once) Do(f func()) {
	if !sched.Active() {
		o.once.Do(f)
		return
	}
	for {
		sched.Point("Once.Do")
		if o.done {
			return
		}
		if !o.running {
			o.running = true
			f()
			o.done = true
			o.running = false
			return
		}
	}
}

// WaitGroup is the real one (the harness bodies do not wait on the library's goroutines).
type WaitGroup = sync.WaitGroup

// Locker is the real interface.
type Locker = sync.Locker
